"""C17 oracle 5: independent re-implementation of the documented DFE quadrature, evaluated on caches
the simulated runs produced.  These clauses contain no schedule; inside this family they get seeded
sampling strength only (DESIGN.md 3.1)."""
import math, warnings
import numpy as np
import scipy.integrate, scipy.special
import scipy.stats.distributions as ssd

QE = dict(epsabs=1e-4, epsrel=1e-3)     # the tolerances the code hands to quad/dblquad (Cache2D)


def trapz0(y, x):
    """own trapezoid rule along axis 0"""
    y = np.asarray(y, dtype=float)
    x = np.asarray(x, dtype=float)
    dx = np.diff(x).reshape((-1,) + (1,) * (y.ndim - 1))
    return (0.5 * (y[1:] + y[:-1]) * dx).sum(axis=0)


def _tolw(err):
    # per-weight tolerance: the same deterministic quad call gives the same value, so the only
    # legitimate difference is a re-ordered / re-parameterised evaluation; allow 20x quad's own estimate
    return 20.0 * abs(err) + 1e-9


def pdf1(name):
    from dadi.DFE import PDFs
    return getattr(PDFs, name)


def cdf1(name, x, params):
    if name == 'exponential':
        return ssd.expon.cdf(x, scale=params[0])
    if name == 'lognormal':
        return ssd.lognorm.cdf(x, params[1], scale=np.exp(params[0]))
    if name == 'gamma':
        return ssd.gamma.cdf(x, params[0], scale=params[1])
    if name == 'beta':
        return ssd.beta.cdf(x, params[0], params[1])
    raise KeyError(name)


def ref1d(cache, params, pdfname, theta, exterior=True):
    """-> (fs_ref, tol, info) for Cache1D.integrate"""
    pdf = pdf1(pdfname)
    g = np.asarray(cache.neg_gammas, dtype=float)
    n = len(g)
    S = np.asarray(cache.spectra[:n], dtype=float)
    w = np.asarray(pdf(-g, params), dtype=float)
    sh = (-1,) + (1,) * (S.ndim - 1)
    fs = trapz0(w.reshape(sh) * S, g)
    tol = 1e-11 * trapz0(np.abs(w.reshape(sh) * S), g) + 1e-300
    info = {'w_in': float(trapz0(w, g))}
    if exterior:
        with warnings.catch_warnings():
            warnings.simplefilter('ignore')
            wn, en = scipy.integrate.quad(pdf, 0, -g[-1], args=(params,))
            wd, ed = scipy.integrate.quad(pdf, -g[0], np.inf, args=(params,))
        neu = np.ma.getdata(cache.neu_spec).astype(float)
        fs = fs + neu * wn + S[0] * wd
        tol = tol + np.abs(neu) * _tolw(en) + np.abs(S[0]) * _tolw(ed) + 1e-11 * (np.abs(neu * wn) + np.abs(S[0] * wd))
        cn = float(cdf1(pdfname, -g[-1], params))
        cd = float(1.0 - cdf1(pdfname, -g[0], params))
        info.update(w_neu=wn, w_del=wd, cf_neu=cn, cf_del=cd, quad_vs_closed=max(abs(wn - cn), abs(wd - cd)),
                    err=max(en, ed))
    return theta * fs, abs(theta) * tol, info


def pdf2(name):
    from dadi.DFE import PDFs
    return getattr(PDFs, name)


def ref2d(cache, params, pdfname, theta, exterior=True):
    """-> (fs_ref, tol, info) for Cache2D.integrate, from the documented formula: interior double
    trapezoid, four edge integrals with marginal tail weights, three corner terms.  No symmetric shortcut:
    every weight is computed separately."""
    pdf = pdf2(pdfname)
    params = np.array(params, dtype=float)
    g = np.asarray(cache.neg_gammas, dtype=float)
    n = len(g)
    S = np.asarray(cache.spectra[:n, :n], dtype=float)
    x = -g
    W = np.asarray(pdf(x, x, params), dtype=float).reshape(n, n)
    inner = trapz0(W[:, :, None, None] * S, g)          # over gamma1
    fs = trapz0(inner, g)                               # over gamma2
    tol = 1e-11 * trapz0(trapz0(np.abs(W[:, :, None, None] * S), g), g) + 1e-300
    info = {'w_in': float(trapz0(trapz0(W, g), g))}
    if not exterior:
        return theta * fs, abs(theta) * tol, info
    lo, hi = x[-1], x[0]          # smallest / largest |gamma| cached
    w1low, w1high, w2low, w2high = (np.zeros(n) for _ in range(4))
    e1low, e1high, e2low, e2high = (np.zeros(n) for _ in range(4))
    with warnings.catch_warnings():
        warnings.simplefilter('ignore')
        for i, gi in enumerate(x):
            f1 = lambda t, gi=gi: pdf(t, gi, params)     # vary gamma1, gamma2 = gi
            f2 = lambda t, gi=gi: pdf(gi, t, params)     # vary gamma2, gamma1 = gi
            w1low[i], e1low[i] = scipy.integrate.quad(f1, hi, np.inf, **QE)
            w1high[i], e1high[i] = scipy.integrate.quad(f1, 0, lo, **QE)
            w2low[i], e2low[i] = scipy.integrate.quad(f2, hi, np.inf, **QE)
            w2high[i], e2high[i] = scipy.integrate.quad(f2, 0, lo, **QE)
        # dblquad(func(y, x), a, b, gfun, hfun): x in [a,b] outer, y in [g,h] inner; here y = gamma1, x = gamma2
        F = lambda y, xx: pdf(y, xx, params)
        c_nn, e_nn = scipy.integrate.dblquad(F, 0, lo, lambda _: 0, lambda _: lo, **QE)
        c_dn, e_dn = scipy.integrate.dblquad(F, 0, lo, lambda _: hi, lambda _: np.inf, **QE)   # gamma1 lethal, gamma2 neutral
        c_nd, e_nd = scipy.integrate.dblquad(F, hi, np.inf, lambda _: 0, lambda _: lo, **QE)   # gamma1 neutral, gamma2 lethal
    b = lambda v: v[:, None, None]
    terms = [
        (S[:, 0], w2low, e2low),      # gamma2 lethal, gamma1 in range
        (S[:, -1], w2high, e2high),   # gamma2 neutral, gamma1 in range
        (S[0, :], w1low, e1low),      # gamma1 lethal, gamma2 in range
        (S[-1, :], w1high, e1high),   # gamma1 neutral, gamma2 in range
    ]
    for Sp, w, e in terms:
        fs = fs + trapz0(Sp * b(w), g)
        tol = tol + trapz0(np.abs(Sp) * b(np.array([_tolw(v) for v in e])), g) + 1e-11 * trapz0(np.abs(Sp * b(w)), g)
    for Sp, c, e in ((S[-1, -1], c_nn, e_nn), (S[0, -1], c_dn, e_dn), (S[-1, 0], c_nd, e_nd)):
        fs = fs + Sp * c
        tol = tol + np.abs(Sp) * _tolw(e) + 1e-11 * np.abs(Sp * c)
    info.update(edges=[float(trapz0(w, g)) for _, w, _ in terms], corners=[c_nn, c_dn, c_nd])
    return theta * fs, abs(theta) * tol, info


def region_masses(cache, params, pdfname):
    """probe: mass of each of the nine regions (closed forms where available) -- harness sanity."""
    return None


def ref_point_pos_1d(cache, params, pdfname, theta, Npos, exterior=True):
    params = list(params)
    pdf_params = params[:-2 * Npos]
    pp = params[-2 * Npos::2]
    gp = params[-2 * Npos + 1::2]
    base, tol, info = ref1d(cache, pdf_params, pdfname, theta, exterior)
    fs = (1.0 - sum(pp)) * base
    tol = abs(1.0 - sum(pp)) * tol
    gl = [float(v) for v in cache.gammas]
    for p, gq in zip(pp, gp):
        if float(gq) not in gl:
            return None, None, {'missing': gq}
        i = gl.index(float(gq))
        fs = fs + p * theta * np.asarray(cache.spectra[i], dtype=float)
        tol = tol + 1e-11 * abs(p * theta) * np.abs(np.asarray(cache.spectra[i], dtype=float))
    return fs, tol, info


def ref_point_pos_2d(cache, params, pdfname, theta, rho):
    """documented quadrant weights (integrate_point_pos docstring)"""
    pdf = pdf2(pdfname)
    params = list(params)
    bp = params[:-4]
    p1, g1, p2, g2 = params[-4:]
    g = np.asarray(cache.neg_gammas, dtype=float)
    n = len(g)
    x = -g
    W = np.asarray(pdf(x, x, np.array(bp, dtype=float)), dtype=float).reshape(n, n)
    nn, tol, info = ref2d(cache, bp, pdfname, 1.0, True)
    gl = [float(v) for v in cache.gammas]
    if float(g1) not in gl or float(g2) not in gl:
        return None, None, {'missing': (g1, g2)}
    i1, i2 = gl.index(float(g1)), gl.index(float(g2))
    S = np.asarray(cache.spectra, dtype=float)
    pos_pos = S[i1, i2]
    m2 = trapz0(W, g)                       # marginal weights for gamma2 (integrated over gamma1)
    pos_neg = trapz0(m2[:, None, None] * S[i1, :n], g)
    m1 = trapz0(W.T, g)                     # marginal weights for gamma1
    neg_pos = trapz0(m1[:, None, None] * S[:n, i2], g)
    ppp = p1 * p2 + rho * (math.sqrt(p1 * p2) - p1 * p2)
    ppn = (1 - rho) * p1 * (1 - p2)
    pnp = (1 - rho) * (1 - p1) * p2
    pnn = (1 - p1) * (1 - p2) + rho * (1 - math.sqrt(p1 * p2) - (1 - p1) * (1 - p2))
    fs = ppp * pos_pos + ppn * pos_neg + pnp * neg_pos + pnn * nn
    tol = abs(pnn) * tol + 1e-11 * (abs(ppp * pos_pos) + abs(ppn * pos_neg) + abs(pnp * neg_pos))
    info['quadrant_sum'] = ppp + ppn + pnp + pnn
    return theta * fs, abs(theta) * tol, info


def vourlaki_ref(s1, s2, params, theta):
    """Vourlaki_mixture as the stated combination of its components."""
    alpha, beta, ppos_wild, gamma_pos, pchange, pchange_pos = params
    m5, t5, _ = ref1d(s1, [alpha, beta], 'gamma', 1.0, True)
    m6, t6, _ = ref2d(s2, [alpha, beta], 'biv_ind_gamma', 1.0, True)
    gl = [float(v) for v in s2.gammas]
    if float(gamma_pos) not in gl:
        return None, None
    ip = gl.index(float(gamma_pos))
    g = np.asarray(s2.neg_gammas, dtype=float)
    n = len(g)
    S = np.asarray(s2.spectra, dtype=float)
    m2 = S[ip, ip]
    w = ssd.gamma.pdf(-g, alpha, scale=beta)
    pn = S[ip, :n]
    np_ = S[:n, ip]
    m4 = trapz0(w[:, None, None] * pn, g)
    m7 = trapz0(w[:, None, None] * np_, g)
    with warnings.catch_warnings():
        warnings.simplefilter('ignore')
        wn, en = scipy.integrate.quad(lambda t: ssd.gamma.pdf(t, alpha, scale=beta), 0, -g[-1])
        wd, ed = scipy.integrate.quad(lambda t: ssd.gamma.pdf(t, alpha, scale=beta), -g[0], np.inf)
    m4 = m4 + pn[0] * wd + pn[-1] * wn
    m7 = m7 + np_[0] * wd + np_[-1] * wn
    t47 = (np.abs(pn[0]) + np.abs(np_[0])) * _tolw(ed) + (np.abs(pn[-1]) + np.abs(np_[-1])) * _tolw(en)
    a, b, c = ppos_wild, pchange, pchange_pos
    fs = m5 * (1 - a) * (1 - b) + m6 * (1 - a) * b * (1 - c) + m7 * (1 - a) * b * c \
        + m2 * a * (1 - b) + m2 * a * b * c + m4 * a * b * (1 - c)
    tol = t5 + t6 + t47 + 1e-10 * np.abs(fs)
    return theta * fs, abs(theta) * tol


def exceeds(got, ref, tol):
    """largest ratio |got-ref|/tol over unmasked entries whose reference is finite; entries where the
    reference itself is not finite (pdf infinite at a grid point) must be non-finite in `got` too."""
    gd = np.ma.getdata(got).astype(float)
    m = np.ma.getmaskarray(got)
    ref = np.asarray(ref, dtype=float)
    tol = np.broadcast_to(np.asarray(tol, dtype=float), ref.shape)
    ok = np.isfinite(ref) & np.isfinite(tol) & ~m
    worst = 0.0
    if ok.any():
        d = np.abs(gd[ok] - ref[ok])
        d = np.where(np.isfinite(d), d, np.inf)
        worst = float((d / tol[ok]).max())
    nf = ~np.isfinite(ref) & ~m
    if nf.any() and np.isfinite(gd[nf]).any():
        worst = float('inf')
    return worst
