"""C17 -- DFE cache generation under simulated multiprocessing (engine A) + quadrature oracles.

Real code under test: dadi.DFE.Cache1D / Cache2D (constructor, _multiple_processes, _worker_sfs,
merge, integrate*, mixture*), Vourlaki_mixture, PDFs (compiled, rebuilt from the tree),
Numerics.make_extrap_func, Spectrum pickling.  Simulated: multiprocessing.Manager/Queue/list/Process.
"""
import copy, itertools, math, os, sys, warnings
import numpy as np

from dsim import rng as R
from dsim.sched import Sim, Chooser, Deadlock, StepCap, HarnessError, CapturedIO, SimAbort
from dsim.mp import Env
from dsim import harness as H

PROP = 'C17'


# ------------------------------------------------------------------------------------------------
# fault payloads

class StubError(Exception):
    pass


class UnpicklableError(Exception):
    def __init__(self, *a):
        Exception.__init__(self, *a)
        self.lock = __import__('threading').Lock()


EXC = {'ValueError': ValueError, 'FloatingPointError': FloatingPointError, 'MemoryError': MemoryError,
       'ZeroDivisionError': ZeroDivisionError, 'StubError': StubError, 'RuntimeError': RuntimeError,
       'KeyboardInterrupt': KeyboardInterrupt, 'SystemExit': SystemExit, 'GeneratorExit': GeneratorExit,
       'Unpicklable': UnpicklableError}
F1_KINDS = ['ValueError', 'FloatingPointError', 'MemoryError', 'ZeroDivisionError', 'StubError', 'RuntimeError']
F2_KINDS = ['KeyboardInterrupt', 'SystemExit', 'GeneratorExit']


class Hooks:
    """What the model function sees of the simulator."""

    def __init__(self):
        self.sim = None
        self.ch = None
        self.jobmap = {}
        self.faults = []
        self.dur = (1e-3, 1e2)
        self.evals = {}
        self.fired = []
        self.eval_log = []

    def on_eval(self, gam, pts):
        sim = self.sim
        if sim is None or sim.current is None:
            return
        key = tuple(float(g) for g in gam)
        job = self.jobmap.get(key)
        if job is None and all(g == 0 for g in key):
            job = 'neutral'        # Cache1D's extra evaluation at gamma = 0 (in the parent, after the workers are done)
        sim.seam('model.eval')
        n = self.evals.get(key, 0)
        self.evals[key] = n + 1
        lo, hi = self.dur
        d = self.ch.number('dur', lambda s: s.loguniform(lo, hi), lo)
        sim.advance(d)
        sim.count('model_evals')
        for f in self.faults:
            if f['kind'] != 'F6start' and f['job'] == job and f.get('nth', 0) == n and not f.get('_done'):
                f['_done'] = True
                self.fired.append({'kind': f['kind'], 'job': job, 'exc': f.get('exc'), 'task': sim.current.tid})
                sim.count('fault_' + f['kind'])
                sim.trace.append(('fault', f['kind'], job, f.get('exc')))
                if f['kind'] == 'F5kill':
                    t = sim.current
                    t.killed = True
                    t.done = True
                    t.exitcode = -9
                    t.blocked_on = None
                    sim._sched_sem.release()
                    t.sem.acquire()      # parked for ever: the simulated process is gone
                    raise SimAbort()
                raise EXC[f['exc']]('injected fault on job %r' % (job,))


# ------------------------------------------------------------------------------------------------
# models

def _base_arrays(ns):
    shape = tuple(n + 1 for n in ns)
    idx = np.indices(shape).astype(float)
    tot = sum(idx[k] / (ns[k] + 1.0) for k in range(len(ns)))
    b1 = 1.0 + 0.5 * np.cos(1.7 * tot + 0.3) + 0.1 * idx[0]
    b2 = 0.4 + 0.3 * np.sin(2.3 * tot + 1.1) ** 2 + 0.05 * idx[-1]
    b3 = 0.2 + 1.0 / (1.0 + tot)
    return b1, b2, b3


def make_model(mcfg, hooks, ngam):
    """Return demo_sel_func(params, ns, pts).  ngam = number of trailing gamma parameters."""
    import dadi
    kind = mcfg['kind']
    ns = tuple(mcfg['ns'])
    if kind.startswith('real:'):
        from dadi.DFE import DemogSelModels
        real = getattr(DemogSelModels, kind[5:])

        def f(params, ns_, pts):
            hooks.on_eval(params[len(params) - ngam:], pts)
            return real(params, ns_, pts)
        f.__name__ = 'wrapped_' + kind[5:]
        return f
    b1, b2, b3 = _base_arrays(ns)
    pop_ids = mcfg.get('pop_ids')

    def f(params, ns_, pts):
        gam = params[len(params) - ngam:]
        hooks.on_eval(gam, pts)
        scale = 1.0
        for p in params[:len(params) - ngam]:
            scale *= (1.0 + 0.1 * p)
        if kind == 'stub_const':
            val = scale * b1 * (1.0 + 0.37 / pts)
        elif kind == 'stub_inj':
            a = math.atan(gam[0] / 3.0) + 2.0
            val = scale * (b1 * a * (1.0 + 0.37 / pts) + b3 * (0.1 + 1.0 / (1.0 + abs(gam[0]))))
            if ngam == 2:
                b = math.atan(gam[1] / 5.0) + 2.0
                val = val + scale * b2 * b * (1.0 - 0.21 / pts) + 0.05 * b3 * a * b
        elif kind == 'stub_signed':
            a = math.tanh(gam[0] / 7.0)
            val = scale * (b1 * a + b3 * 0.01) * (1.0 + 0.37 / pts)
            if ngam == 2:
                val = val + scale * b2 * math.tanh(gam[1] / 2.0)
        else:
            raise HarnessError('unknown model kind ' + kind)
        fs = dadi.Spectrum(val, pop_ids=pop_ids)
        fs.extrap_x = 1.0 / pts
        return fs
    f.__name__ = kind
    return f


# ------------------------------------------------------------------------------------------------
# configuration (swarm)

REAL_1D = [('real:equil', [], [4]), ('real:two_epoch_sel', [2.0, 0.05], [5]),
           ('real:split_mig_sel_single_gamma', [1.5, 0.7, 0.05, 1.0], [3, 2])]
REAL_2D = [('real:split_mig_sel', [1.5, 0.7, 0.05, 1.0], [3, 2]),
           ('real:split_asym_mig_sel', [1.5, 0.7, 0.05, 1.0, 0.5], [2, 3])]


def _gen_pts(s):
    # 1-3 distinct grid sizes (this tree defines linear and quadratic extrapolation only; 4-6 sizes raise
    # NameError inside Numerics.make_extrap_func -- a C07 matter, noted in DESIGN.md appendix A)
    base = s.choice([10, 20, 30])
    return [base + 10 * i for i in range(s.randint(1, 3))]


def gen_cfg(s, mode, real_frac=0.0):
    """mode: 'sched' (fault-free), 'fault', 'f5'."""
    cache = s.choice(['1D', '1D', '2D'])
    cfg = {'cache': cache, 'mode': mode}
    real = s.chance(real_frac)
    if real:
        kind, params, ns = s.choice(REAL_1D if cache == '1D' else REAL_2D)
        cfg['model'] = {'kind': kind, 'ns': ns, 'params': params,
                        'pts': s.choice([[8], [8, 10], [8, 10, 12]])}
        gp_hi = 4 if cache == '2D' else 7
    else:
        kind = s.choice(['stub_inj', 'stub_inj', 'stub_inj', 'stub_const', 'stub_signed'])
        if cache == '2D':
            ns = [s.randint(1, 4), s.randint(1, 4)]
        else:
            ns = [s.randint(2, 6) for _ in range(s.choice([1, 1, 2, 3]))]
        cfg['model'] = {'kind': kind, 'ns': ns, 'params': [s.choice([0.5, 1.0, 2.0]) for _ in range(s.randint(0, 2))],
                        'pts': _gen_pts(s),
                        'pop_ids': None if s.chance(0.5) else ['p%d' % i for i in range(len(ns))]}
        gp_hi = 5 if cache == '2D' else 9
    lo = s.choice([1e-4, 1e-3, 1e-2, 0.1])
    hi = s.choice([2.0, 20.0, 200.0, 2000.0])
    cfg['gamma_bounds'] = [lo, hi]
    cfg['gamma_pts'] = s.randint(2, gp_hi)
    nadd = s.choice([0, 0, 1, 2])
    ag = sorted(set(s.choice([0.0, 0.5, 1.0, 4.3, 10.0]) for _ in range(nadd)))
    cfg['additional_gammas'] = s.shuffle(ag)        # any order is legal: results must land by index, not by value
    cfg['cpus'] = s.choice([1, 2, 2, 3, 4, 5, 6, 8, 11, 16])
    if s.chance(0.06):
        cfg['cpus'] = None
    cfg['cpu_count'] = s.randint(2, 16)
    cfg['gpus'] = 1 if s.chance(0.03) else 0
    cfg['split_jobs'] = 1
    cfg['this_job_id'] = 0
    if cache == '2D' and s.chance(0.4):
        cfg['split_jobs'] = s.randint(1, 6)
        cfg['this_job_id'] = s.randrange(cfg['split_jobs'])
    cfg['buggify'] = s.choice([0.0, 0.05, 0.2, 0.5, 1.0])
    cfg['dur'] = s.choice([[1e-3, 1e2], [1e-3, 1e-3], [1.0, 2.0], [1e-2, 1e1]])
    cfg['policy'] = s.choice(['des', 'des', 'des', 'pct'])
    cfg['pct_depth'] = s.choice([1, 2, 3])
    prof = s.choice(['uniform', 'uniform', 'stalled', 'fast_one', 'slow_producer', 'mixed'])
    cfg['profile'] = prof
    ncp = cfg['cpus'] or cfg['cpu_count']
    speeds = {}
    if prof == 'stalled':
        speeds[str(s.randrange(ncp))] = 1e-4
    elif prof == 'fast_one':
        speeds[str(s.randrange(ncp))] = 1e4
    elif prof == 'mixed':
        for i in range(ncp):
            speeds[str(i)] = s.loguniform(1e-2, 1e2)
    cfg['speeds'] = speeds
    cfg['main_speed'] = 1e-4 if prof == 'slow_producer' else 1.0
    cfg['spawn'] = s.chance(0.25)
    cfg['decoy'] = s.choice([None, None, None, 'single', 'multi'])
    cfg['faults'] = []
    njobs = n_jobs(cfg)
    if mode == 'fault' and njobs and (cfg['cpus'] or cfg['cpu_count']) > 1 and not cfg['gpus'] and s.chance(0.08):
        # F6: the k-th Process.start() fails (fork: EAGAIN) after earlier workers are already running
        cfg['faults'].append({'kind': 'F6start', 'job': None, 'nth': s.randrange(cfg['cpus'] or cfg['cpu_count'])})
    elif mode == 'fault' and njobs and cache == '1D' and s.chance(0.12) and 0.0 not in cfg['additional_gammas']:
        cfg['faults'].append({'kind': 'F1', 'job': 'neutral', 'exc': s.choice(F1_KINDS), 'nth': s.randrange(len(cfg['model']['pts']))})
    elif mode == 'fault' and njobs:
        jobs = owned_jobs(cfg)
        if jobs:
            r = s.random()
            if r < 0.6:
                chosen = [s.choice(jobs)]
            elif r < 0.9:
                chosen = s.sample(jobs, s.randint(1, len(jobs)))
            else:
                chosen = list(jobs)
            f2 = s.chance(0.3)
            for j in chosen:
                kindx = s.choice(F2_KINDS if f2 else F1_KINDS)
                cfg['faults'].append({'kind': 'F2' if f2 else 'F1', 'job': j, 'exc': kindx,
                                      'nth': s.randrange(len(cfg['model']['pts']))})
    if mode == 'f5' and njobs:
        jobs = owned_jobs(cfg)
        if jobs:
            j = s.choice(jobs)
            if s.chance(0.5):
                cfg['faults'].append({'kind': 'F5kill', 'job': j, 'nth': 0})
            else:
                cfg['faults'].append({'kind': 'F5unpicklable', 'job': j, 'exc': 'Unpicklable', 'nth': 0})
    return cfg


def gammas_of(cfg):
    lo, hi = cfg['gamma_bounds']
    g = -np.logspace(np.log10(hi), np.log10(lo), cfg['gamma_pts'])
    return np.concatenate((g, cfg['additional_gammas']))


def n_jobs(cfg):
    n = len(gammas_of(cfg))
    return n if cfg['cache'] == '1D' else n * n


def owned_jobs(cfg):
    n = n_jobs(cfg)
    if cfg['cache'] == '1D':
        return list(range(n))
    return [e for e in range(n) if e % cfg['split_jobs'] == cfg['this_job_id']]


def jobmap_of(cfg):
    g = gammas_of(cfg)
    if cfg['cache'] == '1D':
        m = {}
        for i, x in enumerate(g):
            m.setdefault((float(x),), i)
        return m
    m = {}
    n = len(g)
    for i in range(n):
        for j in range(n):
            m.setdefault((float(g[i]), float(g[j])), i * n + j)
    return m


def step_cap(cfg):
    ncp = cfg['cpus'] or cfg['cpu_count']
    return 60 * (n_jobs(cfg) * (len(cfg['model']['pts']) + 4) + ncp * 8) + 400


# ------------------------------------------------------------------------------------------------
# running

def construct(cfg, hooks):
    from dadi.DFE import Cache1D, Cache2D
    m = cfg['model']
    if cfg['cache'] == '1D':
        func = make_model(m, hooks, 1)
        return Cache1D(list(m['params']), list(m['ns']), func, list(m['pts']),
                       gamma_bounds=tuple(cfg['gamma_bounds']), gamma_pts=cfg['gamma_pts'],
                       additional_gammas=list(cfg['additional_gammas']), cpus=cfg['cpus'], gpus=cfg['gpus'])
    func = make_model(m, hooks, 2)
    return Cache2D(list(m['params']), list(m['ns']), func, list(m['pts']),
                   gamma_bounds=tuple(cfg['gamma_bounds']), gamma_pts=cfg['gamma_pts'],
                   additional_gammas=list(cfg['additional_gammas']), cpus=cfg['cpus'], gpus=cfg['gpus'],
                   split_jobs=cfg['split_jobs'], this_job_id=cfg['this_job_id'])


def reference(cfg):
    """Single-process, fault-free build outside the simulator."""
    c2 = dict(cfg)
    c2['cpus'] = 1
    c2['gpus'] = 0
    hooks = Hooks()
    with warnings.catch_warnings():
        warnings.simplefilter('ignore')
        return construct(c2, hooks)


def simulate(cfg, stream=None, decisions=None):
    """One simulated execution.  Returns (outcome, cache_or_None, sim, hooks)."""
    ch = Chooser(stream=stream, replay=decisions)
    sim = Sim(ch, buggify=cfg['buggify'], step_cap=step_cap(cfg), policy=cfg.get('policy', 'des'), pct_depth=cfg.get('pct_depth', 2),
              pct_horizon=max(20, 6 * n_jobs(cfg)))
    hooks = Hooks()
    hooks.sim, hooks.ch = sim, ch
    hooks.jobmap = jobmap_of(cfg)
    hooks.faults = [dict(f) for f in cfg['faults']]
    hooks.dur = tuple(cfg['dur'])
    env = Env(sim, cpu_count=cfg['cpu_count'], speeds={int(k): v for k, v in cfg['speeds'].items()},
              spawn_variant=cfg['spawn'])
    for f in cfg['faults']:
        if f['kind'] == 'F6start':
            env.start_fault = f['nth']
    box = {}

    def main():
        try:
            box['cache'] = construct(cfg, hooks)
        except SimAbort:
            raise
        except BaseException as e:       # the caller of Cache1D(...) sees this
            box['exc'] = e
    out = {}
    with CapturedIO() as cap, env, warnings.catch_warnings():
        warnings.simplefilter('ignore')
        mt = sim.spawn('main', main)
        mt.speed = cfg.get('main_speed', 1.0)
        try:
            sim.run()
            if mt.killed or ('exc' not in box and 'cache' not in box):
                out['outcome'] = 'main-killed'
            elif 'exc' in box:
                out['outcome'] = 'raised'
                out['exc_type'] = type(box['exc']).__name__
                out['exc_msg'] = str(box['exc'])[:200]
            else:
                out['outcome'] = 'returned'
        except Deadlock as d:
            out['outcome'] = 'deadlock'
            out['report'] = d.report
        except StepCap as d:
            out['outcome'] = 'stepcap'
    out['steps'] = sim.steps
    out['sim_time'] = sim.now
    out['diverged'] = ch.diverged
    out['fired'] = hooks.fired + ([{'kind': 'F6start', 'job': None, 'exc': 'OSError', 'task': 0}] if env.start_fault_fired else [])
    out['stats'] = dict(sim.stats)
    out['workers_alive_at_end'] = sum(1 for p in env.procs if p.task is not None and not p.task.done)
    out['worker_exitcodes'] = [p.exitcode for p in env.procs]
    out['qdepth'] = max([q.max_depth for q in env.queues] or [0])
    # interleaving signature: who got which job, and in which order results were appended
    gets = [(e[1], e[3][:2] if isinstance(e[3], tuple) else e[3]) for e in sim.trace if e[0] == 'get']
    apps = [(e[1], e[2][:2] if isinstance(e[2], tuple) else e[2]) for e in sim.trace if e[0] == 'append']
    out['sig'] = H.digest([gets, apps])
    out['sched_digest'] = H.digest(sim.schedule)
    out['trace_digest'] = H.digest(sim.trace)
    out['n_get'] = len(gets)
    out['nonfifo'] = _nonfifo(apps)
    return out, box.get('cache'), sim, ch


def _nonfifo(apps):
    """results appended in an order different from job order?"""
    idx = [a[1][0] if isinstance(a[1], tuple) else None for a in apps]
    idx = [i for i in idx if isinstance(i, int)]
    ks = []
    for a in apps:
        if isinstance(a[1], tuple):
            ks.append(tuple(x for x in a[1] if isinstance(x, int)))
    return ks != sorted(ks)


def spectra_list(cache):
    s = cache.spectra
    return s


def compare_caches(cfg, ref, got, exact):
    """Return None if equal else a short description of the first difference."""
    for attr in ('gammas', 'neg_gammas'):
        a, b = np.asarray(getattr(ref, attr)), np.asarray(getattr(got, attr))
        if a.shape != b.shape or not np.array_equal(a, b):
            return '%s differs' % attr
    rs, gs = ref.spectra, got.spectra
    if isinstance(rs, np.ndarray):
        if not isinstance(gs, np.ndarray):
            return 'spectra is %s, reference is ndarray' % type(gs).__name__
        if gs.dtype == object or rs.shape != gs.shape:
            return 'spectra dtype/shape %s %s vs reference %s %s' % (gs.dtype, gs.shape, rs.dtype, rs.shape)
        if exact:
            if not np.array_equal(rs, gs, equal_nan=True):
                bad = np.argwhere(~((rs == gs) | (np.isnan(rs) & np.isnan(gs))))[0]
                return 'spectra differ first at %s: %r vs %r' % (tuple(int(x) for x in bad), float(gs[tuple(bad)]), float(rs[tuple(bad)]))
        else:
            if not np.allclose(rs, gs, rtol=1e-12, atol=1e-14 * max(1.0, float(np.nanmax(np.abs(rs)))), equal_nan=True):
                return 'spectra differ beyond rtol 1e-12'
    else:
        # split job: list of lists with None for entries this job does not own
        if isinstance(gs, np.ndarray):
            return 'spectra is ndarray, reference is nested list'
        if len(rs) != len(gs):
            return 'row count differs'
        for i, (rr, gr) in enumerate(zip(rs, gs)):
            if len(rr) != len(gr):
                return 'row %d length differs' % i
            for j, (a, b) in enumerate(zip(rr, gr)):
                if (a is None) != (b is None):
                    return 'entry (%d,%d): %s vs reference %s' % (i, j, 'None' if b is None else 'spectrum', 'None' if a is None else 'spectrum')
                if a is not None:
                    d = _spec_diff(a, b, exact)
                    if d:
                        return 'entry (%d,%d): %s' % (i, j, d)
    if cfg['cache'] == '1D':
        d = _spec_diff(ref.neu_spec, got.neu_spec, exact)
        if d:
            return 'neu_spec: ' + d
    return None


def _spec_diff(a, b, exact):
    if isinstance(a, BaseException) or isinstance(b, BaseException):
        return 'exception object stored as spectrum'
    am, bm = np.ma.getmaskarray(a), np.ma.getmaskarray(b)
    if np.shape(a) != np.shape(b):
        return 'shape differs'
    if not np.array_equal(am, bm):
        return 'mask differs'
    ad, bd = np.ma.getdata(a), np.ma.getdata(b)
    if exact:
        if not np.array_equal(ad, bd, equal_nan=True):
            return 'data differ'
    elif not np.allclose(ad, bd, rtol=1e-12, atol=1e-300, equal_nan=True):
        return 'data differ beyond rtol 1e-12'
    if getattr(a, 'pop_ids', None) != getattr(b, 'pop_ids', None):
        return 'pop_ids differ'
    if getattr(a, 'folded', None) != getattr(b, 'folded', None):
        return 'folded differs'
    return None


def _only_missing(ref, got, exact):
    rs, gs = ref.spectra, got.spectra
    if isinstance(gs, np.ndarray) or len(rs) != len(gs):
        return False
    for rr, gr in zip(rs, gs):
        if len(rr) != len(gr):
            return False
        for a, b in zip(rr, gr):
            if b is None:
                continue
            if a is None or _spec_diff(a, b, exact):
                return False
    return True


def judge(cfg, out, cache, ref):
    """Oracles 1-3.  Returns None or (violation class, message)."""
    exact = not cfg['model']['kind'].startswith('real:')
    faulty = bool(out['fired'])
    armed = bool(cfg['faults'])
    if isinstance(ref, BaseException):
        return ('reference-build-raises', '%s: %s' % (type(ref).__name__, ref))
    if out['outcome'] == 'main-killed':
        return None          # only the informational F5 kill on the single-process path gets here
    if out['outcome'] == 'stepcap':
        return ('no-progress', 'step cap exceeded')
    if out['outcome'] == 'deadlock':
        if not faulty:
            return ('deadlock', '; '.join(out['report']))
        if out['workers_alive_at_end'] > 0 and cfg['mode'] != 'f5':
            return ('deadlock-under-fault', '; '.join(out['report']))
        # every worker is gone: the real parent would block for ever on the bounded queue; with a single injected death
        # this cannot happen unless the code under test lost the other workers itself
        return None if (cfg['mode'] == 'f5' and cfg.get('cpus') == 1) else ('deadlock-under-fault', '; '.join(out['report']))
    if out['outcome'] == 'raised':
        if not faulty:
            return ('unexpected-exception', '%s: %s' % (out['exc_type'], out.get('exc_msg')))
        return None      # reported to the caller: what the property asks
    d = compare_caches(cfg, ref, cache, exact)
    if d is None:
        return None
    if cfg['mode'] == 'f5':
        # a worker that died without reporting (killed, or its exception could not be pickled): the constructor may raise, or
        # -- for a split job, which stays a nested list -- return with exactly the lost entries missing, which Cache2D.merge
        # then reports as incomplete (merge completeness is enumerated separately); anything else absorbs the failure
        if faulty and cfg['split_jobs'] > 1 and not isinstance(cache.spectra, np.ndarray) and _only_missing(ref, cache, exact):
            return None
        if faulty:
            return ('dead-worker-absorbed', 'constructor returned normally after a worker died without reporting (%s); %s'
                    % (','.join(f['kind'] for f in out['fired']), d))
        return ('schedule-dependence', d)
    if faulty:
        return ('fault-absorbed', 'constructor returned normally after %s; %s' % (
            ','.join('%s(%s)@job%s' % (f['kind'], f.get('exc'), f['job']) for f in out['fired']), d))
    return ('schedule-dependence', d)


def expected_spectra(cfg):
    """What the cache must hold, evaluated directly (model + Numerics.make_extrap_func), with no Cache class
    involved: an oracle for the *content*, independent of any state the cache classes keep between constructions."""
    import dadi
    m = cfg['model']
    ng = 1 if cfg['cache'] == '1D' else 2
    f = dadi.Numerics.make_extrap_func(make_model(m, Hooks(), ng))
    g = gammas_of(cfg)
    par = tuple(m['params'])
    with warnings.catch_warnings():
        warnings.simplefilter('ignore')
        if ng == 1:
            return [f(par + (float(x),), list(m['ns']), list(m['pts'])) for x in g], f(par + (0,), list(m['ns']), list(m['pts']))
        return [[f(par + (float(x), float(y)), list(m['ns']), list(m['pts'])) for y in g] for x in g], None


def check_content(cfg, ref):
    """reference build (single process) against direct evaluation"""
    exact = not cfg['model']['kind'].startswith('real:')
    exp, neu = expected_spectra(cfg)
    rs = ref.spectra
    n = len(exp)
    for i in range(n):
        row = [exp[i]] if cfg['cache'] == '1D' else exp[i]
        for j, e in enumerate(row):
            if cfg['cache'] == '1D':
                got = rs[i]
            else:
                owned = (i * n + j) % cfg['split_jobs'] == cfg['this_job_id']
                got = rs[i][j] if not isinstance(rs, np.ndarray) else rs[i, j]
                if not owned:
                    if got is not None:
                        return 'entry (%d,%d) not owned by this split job but filled' % (i, j)
                    continue
            if got is None:
                return 'entry (%d,%d) missing' % (i, j)
            a, b = np.ma.getdata(e), np.ma.getdata(got)
            if a.shape != b.shape:
                return 'entry (%d,%d): shape %s, direct evaluation gives %s' % (i, j, b.shape, a.shape)
            if (exact and not np.array_equal(a, b, equal_nan=True)) or (not exact and not np.allclose(a, b, rtol=1e-12, atol=1e-300, equal_nan=True)):
                return 'entry (%d,%d) differs from direct evaluation of the model' % (i, j)
    if cfg['cache'] == '1D' and neu is not None:
        a, b = np.ma.getdata(neu), np.ma.getdata(ref.neu_spec)
        if a.shape != b.shape or not np.allclose(a, b, rtol=0 if exact else 1e-12, atol=0, equal_nan=True):
            return 'neu_spec differs from direct evaluation'
    return None


def decoy_of(cfg):
    """a different model under the same function name, built first in the same process (history for the cache classes)"""
    d = copy.deepcopy(cfg)
    d['faults'] = []
    m = d['model']
    if m['kind'].startswith('real:'):
        m['params'] = [p * 1.5 for p in m['params']]
    else:
        m['params'] = [p + 0.7 for p in m['params']] or [1.3]
        if cfg['cache'] == '1D':
            m['ns'] = [n + 1 for n in m['ns']]
    d['cpus'] = 1 if cfg.get('decoy') == 'single' else 2
    d['gamma_pts'] = min(d['gamma_pts'], 3)
    d['split_jobs'], d['this_job_id'] = 1, 0
    d['buggify'] = 0.0
    return d


def run_cfg(cfg, stream=None, decisions=None, ref=None):
    if cfg.get('decoy'):
        d = decoy_of(cfg)
        try:
            if d['cpus'] == 1:
                reference(d)
            else:
                simulate(d, stream=R.Stream(12345))
        except Exception:
            pass
    if ref is None:
        try:
            ref = reference(cfg)
        except Exception as e:
            ref = e
    out, cache, sim, ch = simulate(cfg, stream=stream, decisions=decisions)
    v = judge(cfg, out, cache, ref)
    if v is None and not isinstance(ref, BaseException):
        try:
            c = check_content(cfg, ref)
        except Exception as e:
            c = 'direct evaluation failed: %s: %s' % (type(e).__name__, e)
        if c:
            v = ('cache-content', 'single-process build: ' + c + (' (after a decoy construction of another model with the same function name)' if cfg.get('decoy') else ''))
    return out, cache, ch.log, v, ref


# ------------------------------------------------------------------------------------------------
# merge (F4)

def build_split(cfg_base, k, s, use_sim=True):
    """Build the k split-job caches (each under its own simulated schedule) and the unsplit one."""
    parts = []
    for j in range(k):
        c = dict(cfg_base)
        c['split_jobs'], c['this_job_id'] = k, j
        c['faults'] = []
        if use_sim and c['cpus'] != 1:
            out, cache, sim, ch = simulate(c, stream=R.Stream(s.u64()))
            if out['outcome'] != 'returned':
                return None, None, ('split-build-failed', 'job %d/%d: %s' % (j, k, out))
        else:
            c['cpus'] = 1
            cache = reference(c)
        parts.append(cache)
    c = dict(cfg_base)
    c['split_jobs'], c['this_job_id'] = 1, 0
    whole = reference(c)
    return parts, whole, None


def conflicting_copy(cache, pos):
    """A copy of a split cache in which the pos-th owned spectrum has one unmasked entry changed."""
    c = copy.deepcopy(cache)
    owned = [(i, j) for i, row in enumerate(c.spectra) for j, fs in enumerate(row) if fs is not None]
    if not owned:
        return None
    i, j = owned[pos % len(owned)]
    fs = c.spectra[i][j]
    m = np.array(np.ma.getmaskarray(fs), copy=True)
    m.flat[0] = m.flat[-1] = True         # the corners are masked in every Spectrum: a difference there is no conflict
    um = np.argwhere(~m)
    if len(um) == 0:
        return None
    e = tuple(um[(pos * 7) % len(um)])
    d = np.ma.getdata(fs)
    d[e] = d[e] * 1.5 + 1.0
    return c


def merge_case(parts, whole, pattern, order_stream, conflict_at=None):
    """pattern[j] in {0,1,2} copies of job j; conflict_at=(job, pos) replaces the 2nd copy of that job by
    a conflicting one.  Returns None or (class, message)."""
    from dadi.DFE import Cache2D
    k = len(parts)
    lst = []
    owners = [any(fs is not None for row in p.spectra for fs in row) for p in parts]
    for j, n in enumerate(pattern):
        for r in range(n):
            if conflict_at is not None and conflict_at[0] == j and r == 1:
                cc = conflicting_copy(parts[j], conflict_at[1])
                if cc is None:
                    return None
                lst.append(('c', j, cc))
            else:
                lst.append(('o', j, parts[j]))
    if not lst:
        return None
    order_stream.shuffle(lst)
    caches = [x[2] for x in lst]
    before = [copy.deepcopy(c.spectra) for c in caches]
    complete = all(pattern[j] > 0 or not owners[j] for j in range(k))
    conflict = conflict_at is not None and owners[conflict_at[0]]
    desc = 'k=%d pattern=%s order=%s conflict=%s' % (k, list(pattern), [(a, b) for a, b, _ in lst], conflict_at)
    try:
        with warnings.catch_warnings():
            warnings.simplefilter('ignore')
            m = Cache2D.merge(caches)
    except Exception as e:
        if complete and not conflict:
            return ('merge-rejects-complete', '%s raised %s: %s' % (desc, type(e).__name__, e))
        return None
    if not complete:
        return ('merge-absorbs-missing-job', desc + ' returned normally')
    if conflict:
        return ('merge-absorbs-conflict', desc + ' returned normally')
    if not isinstance(m.spectra, np.ndarray) or m.spectra.shape != whole.spectra.shape \
            or not np.array_equal(m.spectra, whole.spectra):
        return ('merge-differs-from-unsplit', desc)
    for c, b in zip(caches, before):
        for r1, r2 in zip(c.spectra, b):
            for a1, a2 in zip(r1, r2):
                if (a1 is None) != (a2 is None) or (a1 is not None and not np.array_equal(np.ma.getdata(a1), np.ma.getdata(a2))):
                    return ('merge-modifies-input', desc)
    return None


# ------------------------------------------------------------------------------------------------
# quadrature clauses (oracle 5) on caches produced by simulated runs

PDF1 = ['exponential', 'lognormal', 'gamma', 'beta']
PDF2 = ['biv_lognormal', 'biv_ind_gamma']


def gen_quad_case(s, real_frac=0.0):
    """explicit description of one quadrature case: two caches (1D and 2D on the same gamma grid) + queries"""
    lo = s.choice([1e-3, 1e-2, 0.1, 0.5])
    hi = s.choice([2.0, 5.0, 20.0, 100.0])
    add = s.shuffle(sorted(set([s.choice([0.5, 1.0, 4.3, 10.0])] + ([s.choice([0.0, 2.0, 7.5])] if s.chance(0.5) else []))))
    const = s.chance(0.25)
    kind = 'stub_const' if const else s.choice(['stub_inj', 'stub_inj', 'stub_signed'])
    ns2 = [s.randint(1, 3), s.randint(1, 3)]
    pts = _gen_pts(s)[:2]
    mparams = [s.choice([0.5, 1.0, 2.0]) for _ in range(s.randint(0, 2))]
    common = {'gamma_bounds': [lo, hi], 'additional_gammas': add, 'gpus': 0, 'split_jobs': 1, 'this_job_id': 0,
              'cpu_count': s.randint(2, 16), 'buggify': s.choice([0.0, 0.2, 1.0]), 'dur': [1e-3, 1e2],
              'profile': 'uniform', 'speeds': {}, 'main_speed': 1.0, 'spawn': False, 'faults': [], 'mode': 'quad'}
    c1 = dict(common, cache='1D', gamma_pts=s.randint(2, 12), cpus=s.choice([1, 2, 3, 5, 8]),
              model={'kind': kind, 'ns': ns2 if s.chance(0.7) else [s.randint(2, 6)], 'params': mparams, 'pts': pts, 'pop_ids': None})
    gp2 = s.randint(2, 6)
    c2 = dict(common, cache='2D', gamma_pts=gp2, cpus=s.choice([1, 2, 3, 5, 8]),
              model={'kind': kind, 'ns': ns2, 'params': mparams, 'pts': pts, 'pop_ids': None})
    if s.chance(0.6):
        c1['gamma_pts'] = gp2     # mixtures need nothing shared but keep them comparable
    if s.chance(0.4):
        # the 1-D and 2-D caches of a mixture may cover different gamma ranges
        c1['gamma_bounds'] = [s.choice([lo, lo * 3]), s.choice([hi * 2, hi * 0.5])]
    if c1['model']['ns'] != ns2:
        mix_ok = False
    else:
        mix_ok = True
    mean = s.loguniform(lo, 2 * hi)
    conc = s.chance(0.15)
    if conc:
        # a DFE concentrated at very small |gamma| in both dimensions: its density underflows at gamma = 0.01, 1, 100
        # (legal, and the situation in which a symmetry test on a few fixed points says nothing)
        mean = s.loguniform(2e-4, 3e-3)

    def mean2():
        return mean * s.uniform(0.3, 3.0) if conc else s.loguniform(lo, 2 * hi)

    def p1(name):
        if name == 'exponential':
            return [mean]
        if name == 'lognormal':
            return [math.log(mean), s.uniform(0.5, 3.0)]
        if name == 'gamma':
            a = s.uniform(0.3, 4.0)
            return [a, mean / a]
        return [s.uniform(0.5, 5.0), s.uniform(0.5, 5.0)]

    def p2(name):
        if name == 'biv_lognormal':
            rho = s.uniform(-0.95, 0.95)
            sg = s.uniform(0.5, 3.0)
            r = s.random()
            if r < 0.4:
                return [math.log(mean), sg, rho]
            if r < 0.6:   # nearly symmetric 5-parameter form (exercises the symmetric-shortcut guard)
                return [math.log(mean), math.log(mean) * (1 + 1e-3) + 1e-3, sg, sg, rho]
            return [math.log(mean), math.log(mean2()), sg, s.uniform(0.5, 3.0) if not conc else s.uniform(0.5, 1.0), rho]
        a = s.uniform(0.5, 4.0)
        r = s.random()
        if r < 0.3:
            return [a, mean / a]
        if r < 0.45:
            return [a, mean / a, 0.3]
        a2 = s.uniform(0.5, 4.0)
        out = [a, a2, mean / a, mean2() / a2]
        if r < 0.6:
            out = [a, a * (1 + 1e-3), mean / a, mean / a]
        elif r < 0.75:
            out = [a, a, mean / a, mean2() / a]      # equal shapes, different scales
        return out + ([0.1] if s.chance(0.3) else [])
    n1, n2 = s.choice(PDF1), s.choice(PDF2)
    gpos = s.choice([a for a in add if a > 0] or [add[0]])
    q = {'pdf1': n1, 'params1': p1(n1), 'pdf2': n2, 'params2': p2(n2), 'theta': s.choice([1.0, 2.5, 1e3, 0.3]),
         'gpos': gpos, 'gpos_missing': 3.21, 'ppos': 0.0 if s.chance(0.08) else s.uniform(0.01, 0.6), 'ppos2': s.uniform(0.01, 0.39),
         'rho': s.choice([0.0, 1.0]) if s.chance(0.15) else s.uniform(-0.95, 0.95), 'p2d': s.choice([0.0, 1.0]) if s.chance(0.15) else s.uniform(0.05, 0.95),
         'vourlaki': [s.uniform(0.5, 3.0), None] + [(s.choice([0.0, 1.0]) if s.chance(0.3) else s.uniform(0, 1)) for _ in range(1)] + [gpos]
                     + [(s.choice([0.0, 1.0]) if s.chance(0.3) else s.uniform(0, 1)) for _ in range(2)],
         'mix_ok': mix_ok, 'uncached_gpos': s.choice([1.21, 2.7]), 'two_pdf_params': [s.uniform(0.6, 3.0), s.uniform(0.6, 3.0)]}
    q['vourlaki'][1] = mean / q['vourlaki'][0]
    # which clauses to evaluate (2-D exterior integrals are slow: a subset per case)
    q['clauses'] = sorted(s.sample(['int1', 'int1_noext', 'two_pdfs', 'pp1', 'pp1_uncached', 'int2', 'int2_seq', 'int2_noext', 'pp2', 'spp2',
                                    'mix', 'mix_spp', 'mix_pp', 'vourlaki', 'index_errors', 'pdfs'], s.randint(4, 7)))
    return {'c1': c1, 'c2': c2, 'q': q}


def quad_case(case, stream):
    """Returns (list of (class, message), probes dict)."""
    import dadi
    import dadi.DFE as DFE
    from dadi.DFE import PDFs
    from checks import c17_quad as Q
    viol, probes = [], {}
    c1, c2, q = case['c1'], case['c2'], case['q']
    need2 = any(c in q['clauses'] for c in ('int2', 'int2_seq', 'int2_noext', 'pp2', 'spp2', 'mix', 'mix_spp', 'mix_pp', 'vourlaki', 'index_errors'))
    o1, s1, _, _ = simulate(c1, stream=R.Stream(stream.u64()))
    if o1['outcome'] != 'returned':
        return [('quad-cache-build', '1D build: %s' % o1)], probes
    s2 = None
    if need2:
        o2, s2, _, _ = simulate(c2, stream=R.Stream(stream.u64()))
        if o2['outcome'] != 'returned':
            return [('quad-cache-build', '2D build: %s' % o2)], probes
    # the reference works on private copies taken before dadi's quadrature code has touched the caches: an integrate() that
    # modified the cache it reads would otherwise drag the reference along with it
    rc1 = copy.deepcopy(s1)
    rc2 = copy.deepcopy(s2) if s2 is not None else None
    theta = q['theta']
    n1, P1, n2, P2 = q['pdf1'], q['params1'], q['pdf2'], q['params2']
    f1, f2 = getattr(PDFs, n1), getattr(PDFs, n2)

    def chk(clause, got, ref, tol, extra=''):
        if isinstance(got, BaseException):
            viol.append(('quadrature:' + clause, 'raised %s: %s %s' % (type(got).__name__, got, extra)))
            return
        if ref is None:
            return
        if np.shape(got) != np.shape(ref):
            viol.append(('quadrature:' + clause, 'shape %s vs %s %s' % (np.shape(got), np.shape(ref), extra)))
            return
        r = Q.exceeds(got, ref, tol)
        probes[clause] = max(probes.get(clause, 0.0), r)
        if r > 1.0:
            gd = np.ma.getdata(got)
            k = np.unravel_index(np.nanargmax(np.where(np.ma.getmaskarray(got), 0, np.abs(gd - ref) / tol)), gd.shape)
            viol.append(('quadrature:' + clause, 'differs from documented formula by %.3g x tolerance at %s: got %r want %r %s'
                         % (r, tuple(int(i) for i in k), float(gd[k]), float(ref[k]), extra)))

    def call(f, *a, **k):
        try:
            with warnings.catch_warnings():
                warnings.simplefilter('ignore')
                return f(*a, **k)
        except Exception as e:
            return e

    with CapturedIO():
        for cl in q['clauses']:
            if cl in ('int1', 'int1_noext'):
                ext = cl == 'int1'
                ref, tol, info = Q.ref1d(rc1, P1, n1, theta, ext)
                got = call(s1.integrate, list(P1), None, f1, theta, None, exterior_int=ext)
                chk(cl, got, ref, tol, 'pdf=%s%r' % (n1, P1))
                got1 = call(s1.integrate, np.array(P1), None, f1, 1.0, None, exterior_int=ext)
                if not isinstance(got1, BaseException) and not isinstance(got, BaseException):
                    chk(cl + '/theta-linear', got, theta * np.ma.getdata(got1), 1e-12 * np.abs(theta * np.ma.getdata(got1)) + 1e-300)
                if ext:
                    probes['tail_mass_1d'] = info['w_neu'] + info['w_del']
                    probes['quad_vs_closed_1d'] = info['quad_vs_closed']
                    if c1['model']['kind'] == 'stub_const':
                        probes['W_minus_1_1d'] = info['w_in'] + info['w_neu'] + info['w_del'] - 1.0
            elif cl == 'two_pdfs':
                # one cache, several distributions at the same parameter vector, in both orders (nothing about an earlier
                # integrate() may leak into the next one)
                pv = [s2p for s2p in q['two_pdf_params']]
                for order in (('gamma', 'lognormal', 'beta'), ('lognormal', 'beta', 'gamma')):
                    for nm in order:
                        for ext in (True, False):
                            ref, tol, info = Q.ref1d(rc1, pv, nm, theta, ext)
                            got = call(s1.integrate, list(pv), None, getattr(PDFs, nm), theta, None, exterior_int=ext)
                            chk('two_pdfs', got, ref, tol, 'pdf=%s%r after other pdfs at the same parameters' % (nm, pv))
            elif cl == 'pp1':
                for npos in (1, 2):
                    adds = [a for a in c1['additional_gammas']]
                    if npos == 2 and len(adds) < 2:
                        continue
                    pars = list(P1) + ([q['ppos'], q['gpos']] if npos == 1 else [q['ppos'], adds[0], q['ppos2'], adds[1]])
                    ref, tol, info = Q.ref_point_pos_1d(rc1, pars, n1, theta, npos)
                    got = call(s1.integrate_point_pos, pars, None, f1, theta, None, npos)
                    chk('pp1', got, ref, tol, 'Npos=%d params=%r theta=%r' % (npos, pars, theta))
            elif cl == 'pp1_uncached':
                sc = copy.deepcopy(s1)
                hooks0 = Hooks()
                func = make_model(c1['model'], hooks0, 1)
                gq = q['uncached_gpos']
                pos = dadi.Numerics.make_extrap_func(func)(tuple(c1['model']['params']) + (gq,), c1['model']['ns'], c1['model']['pts'])
                for th in (theta, 1.0, 7.0):     # a history: the same query under different theta
                    base, tol, info = Q.ref1d(rc1, P1, n1, th, True)
                    ref = (1 - q['ppos']) * base + q['ppos'] * th * np.ma.getdata(pos)
                    got = call(sc.integrate_point_pos, list(P1) + [q['ppos'], gq], None, f1, th, func, 1)
                    chk('pp1_uncached', got, ref, (1 - q['ppos']) * tol + 1e-11 * np.abs(ref),
                        'gammapos=%r not cached, theta=%r (call sequence thetas %r)' % (gq, th, (theta, 1.0, 7.0)))
            elif cl in ('int2', 'int2_noext'):
                ext = cl == 'int2'
                ref, tol, info = Q.ref2d(rc2, P2, n2, theta, ext)
                got = call(s2.integrate, list(P2), None, f2, theta, None, exterior_int=ext)
                chk(cl, got, ref, tol, 'pdf=%s%r' % (n2, P2))
                if ext:
                    probes['edge_mass_2d'] = float(sum(info['edges']))
                    probes['corner_mass_2d'] = float(sum(info['corners']))
                    if c2['model']['kind'] == 'stub_const':
                        probes['W_minus_1_2d'] = info['w_in'] + sum(info['edges']) + sum(info['corners']) - 1.0
            elif cl == 'int2_seq':
                # one 2-D cache, the same bivariate pdf with symmetric and with asymmetric parameter values of equal length, in
                # both orders: nothing decided for one parameter vector may be reused for the next
                m0 = math.log(q['two_pdf_params'][0] + 0.2)
                seqs = {'biv_lognormal': [[m0, m0, 0.9, 0.9, 0.3], [m0, m0 + 0.8, 0.9, 1.6, 0.3]],
                        'biv_ind_gamma': [[1.5, 1.5, 0.7, 0.7], [1.5, 2.5, 0.7, 0.2]]}[n2]
                for order in (seqs, seqs[::-1], seqs):
                    for pv in order:
                        ref, tol, info = Q.ref2d(rc2, pv, n2, theta, True)
                        got = call(s2.integrate, list(pv), None, f2, theta, None)
                        chk('int2_seq', got, ref, tol, 'pdf=%s%r in a sequence of symmetric/asymmetric parameter vectors' % (n2, pv))
            elif cl == 'pp2':
                pars = list(P2) + [q['ppos'], q['gpos'], q['ppos2'], c2['additional_gammas'][0]]
                ref, tol, info = Q.ref_point_pos_2d(rc2, pars, n2, theta, q['rho'])
                got = call(s2.integrate_point_pos, pars, None, f2, theta, q['rho'], None)
                chk('pp2', got, ref, tol, 'params=%r rho=%r' % (pars, q['rho']))
                probes['quadrant_sum'] = info.get('quadrant_sum')
            elif cl == 'spp2' and n2 == 'biv_lognormal':
                pars = list(P2) + [q['ppos'], q['gpos']]
                full = list(P2) + [q['ppos'], q['gpos'], q['ppos'], q['gpos']]
                ref, tol, info = Q.ref_point_pos_2d(rc2, full, n2, theta, P2[-1])
                got = call(s2.integrate_symmetric_point_pos, pars, None, f2, theta, None)
                chk('spp2', got, ref, tol, 'params=%r' % (pars,))
            elif cl == 'mix' and q['mix_ok'] and n2 == 'biv_lognormal' and len(P2) == 3:
                # shared (mu, sigma); then rho; then p2d
                pars = list(P2[:2]) + [P2[2], q['p2d']]
                r1, t1, _ = Q.ref1d(rc1, P2[:2], 'lognormal', theta, True)
                r2, t2, _ = Q.ref2d(rc2, P2, n2, theta, True)
                ref = (1 - q['p2d']) * r1 + q['p2d'] * r2
                got = call(DFE.mixture, pars, None, s1, s2, PDFs.lognormal, f2, theta, None)
                chk('mix', got, ref, (1 - q['p2d']) * t1 + q['p2d'] * t2, 'params=%r' % (pars,))
                r1, t1, _ = Q.ref1d(rc1, P2[:2], 'lognormal', theta, False)
                r2, t2, _ = Q.ref2d(rc2, P2, n2, theta, False)
                got = call(DFE.mixture, pars, None, s1, s2, PDFs.lognormal, f2, theta, None, False)
                chk('mix/noext', got, (1 - q['p2d']) * r1 + q['p2d'] * r2, (1 - q['p2d']) * t1 + q['p2d'] * t2)
            elif cl == 'mix_spp' and q['mix_ok'] and n2 == 'biv_lognormal' and len(P2) == 3:
                pars = list(P2[:2]) + [P2[2], q['ppos'], q['gpos'], q['p2d']]
                r1, t1, _ = Q.ref_point_pos_1d(rc1, list(P2[:2]) + [q['ppos'], q['gpos']], 'lognormal', theta, 1)
                r2, t2, _ = Q.ref_point_pos_2d(rc2, list(P2) + [q['ppos'], q['gpos'], q['ppos'], q['gpos']], n2, theta, P2[2])
                if r1 is not None and r2 is not None:
                    ref = (1 - q['p2d']) * r1 + q['p2d'] * r2
                    got = call(DFE.Cache2D_mod.mixture_symmetric_point_pos, pars, None, s1, s2, PDFs.lognormal, f2, theta, None)
                    chk('mix_spp', got, ref, (1 - q['p2d']) * t1 + q['p2d'] * t2, 'params=%r' % (pars,))
            elif cl == 'mix_pp' and q['mix_ok'] and n2 == 'biv_lognormal' and len(P2) == 3:
                g2 = c2['additional_gammas'][0]
                pars = list(P2[:2]) + [P2[2], q['ppos'], q['gpos'], q['ppos2'], g2, q['p2d']]
                r1, t1, _ = Q.ref_point_pos_1d(rc1, list(P2[:2]) + [q['ppos'], q['gpos']], 'lognormal', theta, 1)
                got = call(DFE.Cache2D_mod.mixture_point_pos, pars, None, s1, s2, PDFs.lognormal, f2, theta, None)
                # the docstring fixes the weights of the 1-D and 2-D components and which parameters each
                # receives; it does not say whether the quadrant-coupling rho of Cache2D.integrate_point_pos
                # is the distribution's rho or its default 0, so either is accepted
                cands = []
                for rr in (P2[2], 0.0):
                    r2, t2, _ = Q.ref_point_pos_2d(rc2, list(P2) + [q['ppos'], q['gpos'], q['ppos2'], g2], n2, theta, rr)
                    if r1 is not None and r2 is not None:
                        cands.append(((1 - q['p2d']) * r1 + q['p2d'] * r2, (1 - q['p2d']) * t1 + q['p2d'] * t2))
                if cands:
                    if isinstance(got, BaseException) or np.shape(got) != np.shape(cands[0][0]):
                        chk('mix_pp', got, cands[0][0], cands[0][1], 'params=%r' % (pars,))
                    else:
                        best = min(cands, key=lambda c: Q.exceeds(got, c[0], c[1]))
                        chk('mix_pp', got, best[0], best[1], 'params=%r' % (pars,))
            elif cl == 'vourlaki' and q['mix_ok'] and q['gpos'] > 0:
                ref, tol = Q.vourlaki_ref(rc1, rc2, q['vourlaki'], theta)
                got = call(DFE.Vourlaki_mixture, list(q['vourlaki']), None, s1, s2, theta, None)
                chk('vourlaki', got, ref, tol, 'params=%r' % (q['vourlaki'],))
            elif cl == 'index_errors':
                got = call(s1.integrate_point_pos, list(P1) + [0.1, q['gpos_missing']], None, f1, theta, None, 1)
                if not isinstance(got, IndexError):
                    viol.append(('quadrature:index_errors', 'Cache1D.integrate_point_pos with uncached gammapos and no model: %r' % (got,)))
                got = call(s2.integrate_point_pos, list(P2) + [0.1, q['gpos_missing'], 0.1, q['gpos']], None, f2, theta, 0, None)
                if not isinstance(got, IndexError):
                    viol.append(('quadrature:index_errors', 'Cache2D.integrate_point_pos with uncached gammapos1: %r' % (type(got),)))
            elif cl == 'pdfs':
                xs = np.array([stream.loguniform(1e-4, 1e3) for _ in range(5)])
                ys = np.array([stream.loguniform(1e-4, 1e3) for _ in range(4)])
                # besides the run's own parameters: every parameter form of both densities over the whole legal range (shapes
                # well below 1/2 and above 1, correlations close to +-1, narrow and wide sigmas)
                extra = []
                for _ in range(4):
                    sh = [stream.loguniform(0.05, 8.0), stream.loguniform(0.05, 8.0)]
                    sc = [stream.loguniform(0.1, 50.0), stream.loguniform(0.1, 50.0)]
                    form = stream.randrange(4)
                    pg = [[sh[0], sc[0]], [sh[0], sc[0], 0.2], [sh[0], sh[1], sc[0], sc[1]], [sh[0], sh[1], sc[0], sc[1], 0.1]][form]
                    extra.append(('biv_ind_gamma', pg))
                    mu = [stream.uniform(-2.0, 5.0), stream.uniform(-2.0, 5.0)]
                    sg = [stream.loguniform(0.1, 4.0), stream.loguniform(0.1, 4.0)]
                    rho_ = stream.choice([-0.99, -0.5, 0.0, 0.7, 0.99]) if stream.chance(0.5) else stream.uniform(-0.99, 0.99)
                    pl = [[mu[0], sg[0], rho_], [mu[0], mu[1], sg[0], sg[1], rho_]][form % 2]
                    extra.append(('biv_lognormal', pl))
                for name, pp in [('biv_lognormal', P2 if n2 == 'biv_lognormal' else [0.3, 1.2, -0.4]),
                                 ('biv_ind_gamma', P2 if n2 == 'biv_ind_gamma' else [0.7, 2.0, 3.0, 0.5])] + extra:
                    a = call(getattr(PDFs, name), xs, ys, pp)
                    b = getattr(PDFs, name + '_py')(xs, ys, pp)
                    if isinstance(a, BaseException) or np.shape(a) != np.shape(b) or \
                            not np.allclose(a, b, rtol=1e-9, atol=1e-300):
                        viol.append(('quadrature:pdfs', 'compiled %s%r differs from reference formula' % (name, pp)))
                    a0 = call(getattr(PDFs, name), float(xs[0]), float(ys[0]), pp)
                    b0 = getattr(PDFs, name + '_py')(float(xs[0]), float(ys[0]), pp)
                    if isinstance(a0, BaseException) or not np.allclose(a0, b0, rtol=1e-9, atol=1e-300):
                        viol.append(('quadrature:pdfs', 'compiled %s scalar call differs' % name))
    for nm, live, ref0 in (('Cache1D', s1, rc1), ('Cache2D', s2, rc2)):
        if live is None:
            continue
        a, b = np.asarray(live.spectra), np.asarray(ref0.spectra)
        n = min(len(a), len(b))
        if a.shape[1:] != b.shape[1:] or len(a) < len(b) or not np.array_equal(a[:n], b[:n], equal_nan=True) \
                or not np.array_equal(np.asarray(live.gammas)[:len(ref0.gammas)], np.asarray(ref0.gammas)):
            viol.append(('quadrature:cache-modified', '%s.spectra / gammas were changed by integrate*/mixture calls (clauses %s)' % (nm, q['clauses'])))
    return viol, probes


def merge_mixed_case(partsA, partsB, whole, pick, order_stream, conflict=None):
    """pieces from two different split settings (distinct job ids, overlapping entries).  pick: list of (which, j) pieces to hand to
    merge; conflict=(index into pick, pos): that piece is replaced by a copy with one entry changed.  Completeness is judged on
    coverage of entries; a conflict counts only if the changed entry is also covered by another picked piece."""
    from dadi.DFE import Cache2D
    n = len(whole.gammas)
    pieces = []
    for idx, (w, j) in enumerate(pick):
        c = (partsA if w == 'A' else partsB)[j]
        tag = 'o'
        if conflict is not None and conflict[0] == idx:
            cc = conflicting_copy(c, conflict[1])
            if cc is None:
                return None
            c, tag = cc, 'c'
        pieces.append((tag, w, j, c))
    if not pieces:
        return None
    order_stream.shuffle(pieces)
    cover = {}
    for tag, w, j, c in pieces:
        for i, row in enumerate(c.spectra):
            for jj, fs in enumerate(row):
                if fs is not None:
                    cover.setdefault((i, jj), []).append(fs)
    complete = len(cover) == n * n
    def differ(a, b):
        ok = ~(np.ma.getmaskarray(a) | np.ma.getmaskarray(b))
        ok.flat[0] = ok.flat[-1] = False
        return not np.array_equal(np.ma.getdata(a)[ok], np.ma.getdata(b)[ok])
    conflicting = any(any(differ(a, lst[0]) for a in lst[1:]) for lst in cover.values())
    desc = 'mixed split settings: pieces=%s' % ([(t, w, j) for t, w, j, _ in pieces],)
    try:
        with warnings.catch_warnings():
            warnings.simplefilter('ignore')
            m = Cache2D.merge([c for _, _, _, c in pieces])
    except Exception as e:
        if complete and not conflicting:
            return ('merge-rejects-complete', '%s raised %s: %s' % (desc, type(e).__name__, e))
        return None
    if not complete:
        return ('merge-absorbs-missing-job', desc + ' returned normally')
    if conflicting:
        return ('merge-absorbs-conflict', desc + ' returned normally')
    # expected content: what the pieces themselves hold (a changed entry nothing else covers is simply that piece's value)
    if not isinstance(m.spectra, np.ndarray) or m.spectra.shape != whole.spectra.shape:
        return ('merge-differs-from-unsplit', desc + ': result is not a complete array')
    for (i, jj), lst in cover.items():
        ok = np.ones(whole.spectra[i, jj].shape, dtype=bool)
        ok.flat[0] = ok.flat[-1] = False
        if not np.array_equal(m.spectra[i, jj][ok], np.ma.getdata(lst[0])[ok]):
            return ('merge-differs-from-unsplit', desc + ': entry (%d,%d) is not what the pieces hold' % (i, jj))
    return None
