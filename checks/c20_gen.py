"""Client-program generators for engine B (C20, with the C19 Godambe ops riding along).
Everything is drawn from tiny pools (fault E5) so that sessions revisit memo-cache keys constantly."""
from dsim.session import LAYOUTS

PTS = [6, 8, 10, 12]
NS = [2, 3, 4, 6]


def R(name, i=None):
    d = {'$': name}
    if i is not None:
        d['i'] = i
    return d


def T(*xs):
    return {'$tuple': list(xs)}


class Prog:
    def __init__(self, s, prefix):
        self.s, self.p, self.steps, self.n = s, prefix, [], 0

    def add(self, op, *a, **kw):
        self.n += 1
        r = '%s%d' % (self.p, self.n)
        st = {'r': r, 'op': op, 'a': list(a)}
        if kw:
            st['kw'] = kw
        self.steps.append(st)
        return R(r)


def _par(s, pool, T_end=0.05, allow_fn=True):
    """a demographic parameter: constant, or (sometimes) a function of time"""
    v = s.choice(pool)
    if not allow_fn or s.chance(0.7):
        return v
    if s.chance(0.5):
        return {'$fn': 'const', 'v': v}
    return {'$fn': 'ramp', 'a': v, 'b': s.choice([0.0, 1.0, 5.0]) if v > 0 else 0.0}


def _T(s):
    return s.choice([0.0, 0.01, 0.02, 0.05])


def _grid(s, P, pts):
    # grids of equal length and different values (a cache keyed on len(xx) must collide)
    r = s.random()
    if r < 0.6:
        return P.add('grid', pts)
    if r < 0.75:
        return P.add('grid_exp', pts)
    if r < 0.88:
        return P.add('grid_exp', pts, 4.0)
    return P.add('grid_cumsum', pts)


def g_chain1d(s, P):
    pts = s.choice(PTS)
    xx = _grid(s, P, pts)
    kw = {}
    if s.chance(0.5):
        kw = dict(nu=s.choice([0.5, 1.0, 2.0]), gamma=s.choice([0, -2.0, 3.0]), h=s.choice([0.5, 0.2]))
    phi = P.add(s.choice(['phi_1D', 'phi_1D', 'phi_1D_snm']) if not kw else 'phi_1D', xx, **kw)
    for _ in range(s.randint(1, 2)):
        ikw = {}
        if s.chance(0.6):
            ikw['gamma'] = _par(s, [0, -2.0, 3.0])
        if s.chance(0.3):
            ikw['h'] = s.choice([0.5, 0.2])
        if s.chance(0.15):
            ikw['frozen'] = True
        if s.chance(0.2):
            ikw['theta0'] = _par(s, [1.0, 2.0])
        nu = _par(s, [0.5, 1.0, 2.0])
        if s.chance(0.35):
            # breeding ratio: only the time-dependent driver passes it to the compiled kernel
            ikw['beta'] = s.choice([1, 3.0, 0.5])
            if not isinstance(nu, dict):
                nu = {'$fn': 'ramp', 'a': nu, 'b': s.choice([0.0, 5.0])}
        phi = P.add('Integration.one_pop', phi, xx, _T(s), nu, **ikw)
    n = s.choice(NS)
    skw = {}
    r = s.random()
    if r < 0.2:
        skw['force_direct'] = True
    elif r < 0.3:
        skw['het_ascertained'] = 'xx'
    fs = P.add('from_phi', phi, [n], T(xx), **skw)
    _spec_tail(s, P, fs, [n])
    return P


def _inplace_on(s, P, r):
    """the caller works in place on a result it owns (legal); nothing else it holds may change"""
    x = s.random()
    if x < 0.35:
        P.add('S.imul', r, s.choice([0.5, 3.0]))
    elif x < 0.6:
        P.add('S.mask_entry', r, s.randint(1, 40))
    elif x < 0.8:
        P.add('S.setitem', r, s.randint(1, 40), 123.0)
    elif x < 0.92:
        P.add('S.mask_corners', r)
    else:
        P.add('S.unmask_all', r)


def _spec_tail(s, P, fs, ns):
    """a few spectrum / likelihood ops on fs"""
    nd = len(ns)
    for _ in range(s.randint(1, 4)):
        r = s.random()
        if r < 0.2:
            to = [s.randint(1, n) for n in ns] if s.chance(0.7) else list(ns)       # sometimes to the same sizes
            fs2 = P.add('S.project', fs, to)
            if s.chance(0.4):
                _inplace_on(s, P, fs2)
        elif r < 0.35:
            f2 = P.add('S.fold', fs)
            if s.chance(0.3):
                _inplace_on(s, P, f2)
        elif r < 0.45 and nd > 1:
            m2 = P.add('S.marginalize', fs, [s.randrange(nd)])
            if s.chance(0.3):
                _inplace_on(s, P, m2)
        elif r < 0.55:
            P.add(s.choice(['S.S', 'S.pi', 'S.Watterson_theta', 'S.Tajima_D', 'S.theta_L', 'S.Zengs_E']) if nd == 1 else 'S.S', fs)
        elif r < 0.62 and nd > 1:
            P.add('S.Fst', fs)
        elif r < 0.7 and nd > 1:
            order = list(range(1, nd + 1))
            s.shuffle(order)
            P.add('S.reorder_pops', fs, order)
        elif r < 0.78 and nd > 1:
            a = s.randint(1, nd)
            b = s.choice([x for x in range(1, nd + 1) if x != a])
            c2 = P.add('S.combine_pops', fs, [a, b])
            if s.chance(0.3):
                _inplace_on(s, P, c2)
        elif r < 0.84 and nd > 1:
            c2 = P.add('S.scramble_pop_ids', fs)
            if s.chance(0.3):
                _inplace_on(s, P, c2)
        elif r < 0.9:
            c2 = P.add('apply_anc_state_misid', fs, s.choice([0.0, 0.02, 0.3]))
            if s.chance(0.4):
                _inplace_on(s, P, c2)
        else:
            data = P.add('mk_spectrum', s.randint(0, 5), [n + 1 for n in ns], s.choice([0.0, 0.2]), s.chance(0.3))
            lop = s.choice(['ll', 'll_multinom', 'll_per_bin', 'optimal_sfs_scaling', 'optimally_scaled_sfs',
                            'linear_Poisson_residual', 'Anscombe_Poisson_residual'])
            P.add(lop, fs, data)
            if s.chance(0.3):
                # the caller edits its data in place (one more bin masked, or rescaled) and evaluates again on the same object
                if s.chance(0.5):
                    P.add('S.mask_entry', data, s.randint(1, 30))
                else:
                    P.add('S.imul', data, 2.0)
                P.add(lop, fs, data)


def g_regrid(s, P):
    """a model evaluated on one grid, its objects dropped, then the same kind of model on another grid with the same number
    of points (freed arrays' addresses are reused by the allocator: fault E1 for grids and densities)"""
    pts = s.choice([8, 10, 12])
    kinds = s.sample(['grid', 'grid_exp', 'grid_exp4', 'grid_cumsum'], 2)
    last = None
    for kind in kinds:
        xx = P.add('grid_exp', pts, 4.0) if kind == 'grid_exp4' else P.add(kind, pts)
        phi = P.add('phi_1D', xx)
        ph2 = P.add('Integration.one_pop', phi, xx, s.choice([0.02, 0.05]), {'$fn': 'ramp', 'a': 1.0, 'b': s.choice([0.0, 5.0])},
                    **dict(({'gamma': {'$fn': 'const', 'v': -2.0}} if s.chance(0.4) else {}), **({'beta': s.choice([1, 3.0])} if s.chance(0.4) else {})))
        fs = P.add('from_phi', ph2, [s.choice([3, 4])], T(xx))
        P.steps.append({'r': '%sdrop%d' % (P.p, len(P.steps)), 'op': 'E1.forget', 'a': [xx['$'], phi['$'], ph2['$']]})
        last = fs
    P.add('S.fold', last)
    return P


def g_chain2d(s, P):
    pts = s.choice(PTS)
    xx = _grid(s, P, pts)
    phi = P.add('phi_1D', xx, **({'nu': s.choice([0.5, 2.0])} if s.chance(0.3) else {}))
    phi = P.add('phi_1D_to_2D', xx, phi)
    for _ in range(s.randint(1, 2)):
        kw = {}
        if s.chance(0.6):
            kw['m12'] = _par(s, [0, 1.0, 3.0])
        if s.chance(0.5):
            kw['m21'] = _par(s, [0, 0.5])
        if s.chance(0.4):
            kw['gamma1'] = _par(s, [0, -2.0, 3.0])
        if s.chance(0.3):
            kw['gamma2'] = _par(s, [0, -2.0])
        if s.chance(0.15) and not any(k in kw for k in ('m12', 'm21')):
            for fz in s.sample(['frozen1', 'frozen2'], s.choice([1, 1, 2])):       # any subset, all populations frozen included
                kw[fz] = True
        if s.chance(0.1):
            kw[s.choice(['nomut1', 'nomut2'])] = True
        if s.chance(0.15):
            kw['theta0'] = _par(s, [1.0, 2.0])
        phi = P.add('Integration.two_pops', phi, xx, _T(s), _par(s, [0.5, 1.0, 2.0]), _par(s, [0.5, 1.0, 2.0]), **kw)
        if s.chance(0.25):
            phi = P.add(s.choice(['phi_2D_admix_1_into_2', 'phi_2D_admix_2_into_1']), phi, s.choice([0, 0.1, 0.4]), xx, xx)
        if s.chance(0.2):
            phi = P.add('phi_reorder_pops', phi, [2, 1])
    r = s.random()
    if r < 0.15:
        P.add('phi_remove_pop', phi, xx, s.choice([1, 2]))
    ns = [s.choice(NS), s.choice(NS)]
    skw = {}
    r = s.random()
    if r < 0.2:
        skw['force_direct'] = True
    elif r < 0.35:
        f = s.choice([0.0, 0.25, 1.0])
        skw['admix_props'] = [[1 - f, f], [0, 1]]
    elif r < 0.45:
        skw['het_ascertained'] = s.choice(['xx', 'yy'])
    if s.chance(0.3):
        skw['pop_ids'] = ['YRI', 'CEU']
    fs = P.add('from_phi', phi, ns, T(xx, xx), **skw)
    _spec_tail(s, P, fs, ns)
    return P


def g_chain3d(s, P):
    pts = s.choice([6, 8, 10])
    xx = P.add('grid', pts)
    phi = P.add('phi_1D', xx)
    phi = P.add('phi_1D_to_2D', xx, phi)
    if s.chance(0.5):
        phi = P.add('Integration.two_pops', phi, xx, s.choice([0.01, 0.05]), 1.0, s.choice([0.5, 2.0]))
    r = s.random()
    if r < 0.4:
        phi = P.add('phi_2D_to_3D_split_1', xx, phi)
    elif r < 0.8:
        phi = P.add('phi_2D_to_3D_split_2', xx, phi)
    else:
        phi = P.add('phi_2D_to_3D_admix', phi, s.choice([0, 0.25, 0.5, 1]), xx, xx, xx)
    kw = {}
    for m in ('m12', 'm13', 'm21', 'm23', 'm31', 'm32'):
        if s.chance(0.25):
            kw[m] = _par(s, [0, 1.0, 3.0])
    if s.chance(0.3):
        kw[s.choice(['gamma1', 'gamma2', 'gamma3'])] = _par(s, [0, -2.0, 3.0])
    if s.chance(0.1) and not kw:
        for fz in s.sample(['frozen1', 'frozen2', 'frozen3'], s.choice([1, 1, 2, 3])):
            kw[fz] = True
    phi = P.add('Integration.three_pops', phi, xx, _T(s), _par(s, [0.5, 1.0, 2.0]), _par(s, [1.0, 2.0]), _par(s, [0.5, 1.0]), **kw)
    if s.chance(0.25):
        phi = P.add(s.choice(['phi_3D_admix_1_and_2_into_3', 'phi_3D_admix_1_and_3_into_2', 'phi_3D_admix_2_and_3_into_1']),
                    phi, s.choice([0, 0.1]), s.choice([0, 0.4]), xx, xx, xx)
    if s.chance(0.3):
        order = [1, 2, 3]
        s.shuffle(order)
        phi = P.add('phi_reorder_pops', phi, order)
        if s.chance(0.6):
            phi = P.add('Integration.three_pops', phi, xx, s.choice([0.01, 0.02]), 1.0, 2.0, 0.5)
    if s.chance(0.2):
        keep = sorted(s.sample([1, 2, 3], 2))
        P.add('phi_filter_pops', phi, xx, keep)
    ns = [s.choice([2, 3, 4]) for _ in range(3)]
    skw = {}
    r = s.random()
    if r < 0.2:
        skw['force_direct'] = True
    elif r < 0.3:
        skw['admix_props'] = [[0.5, 0.5, 0], [0, 1, 0], [0, 0.25, 0.75]]
    elif r < 0.38:
        skw['het_ascertained'] = s.choice(['xx', 'yy', 'zz'])
    fs = P.add('from_phi', phi, ns, T(xx, xx, xx), **skw)
    _spec_tail(s, P, fs, ns)
    return P


def g_chain4d(s, P):
    pts = s.choice([6, 8])
    xx = P.add('grid', pts)
    phi = P.add('phi_1D', xx)
    phi = P.add('phi_1D_to_2D', xx, phi)
    phi = P.add(s.choice(['phi_2D_to_3D_split_1', 'phi_2D_to_3D_split_2']), xx, phi)
    f1 = s.choice([0, 0.25, 1])
    phi = P.add('phi_3D_to_4D', phi, f1, s.choice([0, 0.5, 1]) * (1 - f1), xx, xx, xx, xx)
    kw = {}
    for m in ('m12', 'm13', 'm14', 'm21', 'm34', 'm43', 'm42'):
        if s.chance(0.2):
            kw[m] = _par(s, [0, 1.0, 3.0])
    if s.chance(0.3):
        kw[s.choice(['gamma1', 'gamma4'])] = _par(s, [0, -2.0])
    if s.chance(0.1) and not kw:
        for fz in s.sample(['frozen1', 'frozen2', 'frozen3', 'frozen4'], s.choice([1, 1, 2, 4])):
            kw[fz] = True
    phi = P.add('Integration.four_pops', phi, xx, _T(s), _par(s, [0.5, 1.0, 2.0]), _par(s, [1.0, 2.0]), 1.0, _par(s, [0.5, 1.0]), **kw)
    if s.chance(0.5):
        order = [1, 2, 3, 4]
        s.shuffle(order)
        phi = P.add('phi_reorder_pops', phi, order)
        phi = P.add('Integration.four_pops', phi, xx, s.choice([0.0, 0.01, 0.02]), 1.0, 2.0, 0.5, 1.0, **({'m12': 1.0} if s.chance(0.5) else {}))
    if s.chance(0.25):
        phi = P.add(s.choice(['phi_4D_admix_into_1', 'phi_4D_admix_into_2', 'phi_4D_admix_into_3', 'phi_4D_admix_into_4']),
                    phi, s.choice([0, 0.1]), s.choice([0, 0.2]), 0, xx, xx, xx, xx)
    if s.chance(0.2):
        P.add('phi_remove_pop', phi, xx, s.randint(1, 4))
    ns = [s.choice([2, 3]) for _ in range(4)]
    skw = {}
    if s.chance(0.2):
        skw['force_direct'] = True
    elif s.chance(0.15):
        skw['admix_props'] = [[1, 0, 0, 0], [0.25, 0.75, 0, 0], [0, 0, 1, 0], [0, 0, 0.5, 0.5]]
    fs = P.add('from_phi', phi, ns, T(xx, xx, xx, xx), **skw)
    if s.chance(0.5):
        _spec_tail(s, P, fs, ns)
    return P


def g_chain5d(s, P):
    pts = 6
    xx = P.add('grid', pts)
    phi = P.add('phi_1D', xx)
    phi = P.add('phi_1D_to_2D', xx, phi)
    phi = P.add('phi_2D_to_3D_split_1', xx, phi)
    phi = P.add('phi_3D_to_4D', phi, 0, 1, xx, xx, xx, xx)
    phi = P.add('phi_4D_to_5D', phi, s.choice([0, 0.5]), s.choice([0, 0.5]), 0, xx, xx, xx, xx, xx)
    kw = {}
    for m in ('m12', 'm15', 'm51', 'm34'):
        if s.chance(0.2):
            kw[m] = _par(s, [0, 1.0])
    if s.chance(0.1) and not kw:
        for fz in s.sample(['frozen1', 'frozen2', 'frozen3', 'frozen4', 'frozen5'], s.choice([1, 2, 5])):
            kw[fz] = True
    phi = P.add('Integration.five_pops', phi, xx, s.choice([0.0, 0.01]), _par(s, [1.0, 2.0]), 1.0, 1.0, 1.0, _par(s, [0.5, 1.0]), **kw)
    if s.chance(0.5):
        order = [1, 2, 3, 4, 5]
        s.shuffle(order)
        phi = P.add('phi_reorder_pops', phi, order)
        phi = P.add('Integration.five_pops', phi, xx, 0.01, 1.0, 2.0, 1.0, 0.5, 1.0)
    if s.chance(0.2):
        phi = P.add(s.choice(['phi_5D_admix_into_1', 'phi_5D_admix_into_2', 'phi_5D_admix_into_3', 'phi_5D_admix_into_4', 'phi_5D_admix_into_5']), phi, 0.1, 0, 0.2, 0, xx, xx, xx, xx, xx)
    ns = [2, 2, 2, 2, 2]
    P.add('from_phi', phi, ns, T(xx, xx, xx, xx, xx))
    return P


def g_spectrum(s, P):
    nd = s.choice([1, 2, 2, 3])
    ns = [s.choice([2, 3, 4, 6]) for _ in range(nd)]
    ids = None if s.chance(0.4) else s.choice([['A', 'B', 'C'], ['pop one', 'b', 'c c']])[:nd]
    corners = not s.chance(0.25)
    fs = P.add('mk_spectrum', s.randint(0, 9), [n + 1 for n in ns], s.choice([0.0, 0.15]), False, ids, 10.0, False, corners)
    other = P.add('mk_spectrum', s.randint(0, 9), [n + 1 for n in ns], s.choice([0.0, 0.15]), False, ids)
    cur = fs
    for _ in range(s.randint(2, 8)):
        r = s.random()
        if r < 0.12:
            P.add('S.fold', fs)
        elif r < 0.2:
            P.add('S.unfold', P.add('S.fold', fs))
        elif r < 0.3:
            pr = P.add('S.project', fs, [s.randint(1, n) for n in ns] if s.chance(0.6) else list(ns))
            if s.chance(0.5):
                _inplace_on(s, P, pr)
        elif r < 0.4:
            ar = P.add(s.choice(['S.add', 'S.sub', 'S.mul', 'S.div']), fs, other)
            if s.chance(0.4):
                _inplace_on(s, P, ar)
        elif r < 0.45:
            if s.chance(0.6):
                sc = P.add('S.scale', fs, s.choice([0.5, 2.0]))
            elif s.chance(0.5):
                sc = P.add('S.log', fs)
            else:
                sc = None
                P.add('S.neg', fs)       # -a shares a's mask (numpy.ma semantics): a careful caller does not write into it
            if sc is not None and s.chance(0.6):
                _inplace_on(s, P, sc)
            P.add('S.sum', fs)
        elif r < 0.5:
            c = P.add('S.copy', fs)
            P.add(s.choice(['S.iadd']), c, other)
        elif r < 0.55:
            c = P.add('S.copy', fs)
            P.add('S.imul', c, 3.0)
        elif r < 0.6:
            c = P.add('S.copy', fs)
            P.add('S.mask_corners', c)
        elif r < 0.68 and nd > 1:
            P.add('S.marginalize', fs, sorted(s.sample(list(range(nd)), s.randint(1, nd - 1))))
        elif r < 0.74 and nd > 1:
            P.add('S.filter_pops', fs, sorted(s.sample(list(range(1, nd + 1)), s.randint(1, nd - 1))))
        elif r < 0.8 and nd > 1:
            order = list(range(1, nd + 1))
            s.shuffle(order)
            P.add('S.reorder_pops', fs, order)
        elif r < 0.85 and nd > 1:
            P.add('Misc.combine_pops', fs, [0, 1])
        elif r < 0.86:
            P.add(s.choice(['S.S', 'S.pi', 'S.Watterson_theta', 'S.Tajima_D', 'S.log', 'S.sum', 'S.neg'] if nd == 1 else ['S.S', 'S.log', 'S.sum', 'S.neg', 'S.Fst']), fs)
        elif r < 0.9:
            P.add('S.file_roundtrip', s.choice([fs, P.add('S.fold', fs)]) if s.chance(0.5) else fs)
        else:
            P.add(s.choice(['ll', 'll_multinom', 'linear_Poisson_residual', 'Anscombe_Poisson_residual', 'optimal_sfs_scaling']), fs, other)
    if not corners:
        # statistics temporarily re-mask the corners of a spectrum whose corners are unmasked
        P.add('S.S', fs)
        P.add('S.Watterson_theta' if nd == 1 else 'S.S', fs)
        P.add('S.sum', fs)
    return P


def g_numerics(s, P):
    for _ in range(s.randint(3, 9)):
        r = s.random()
        if r < 0.3:
            frm = s.choice([4, 6, 8, 10])
            to = s.choice([2, 3, 4])
            P.add('cached_projection', to, frm, s.randint(0, frm))
        elif r < 0.45:
            n = s.choice([4, 6, 8])
            P.add('BetaBinomConvolution', s.randint(0, n), n, s.choice([0.5, 1.0]), s.choice([0.5, 2.0]), s.choice([2, 4]))
        elif r < 0.6:
            mx = s.choice([2, 4])
            n = s.choice([2, 3, 4])
            P.add('cached_part', s.randint(0, mx * n), n, 0, mx)
        elif r < 0.7:
            mx = s.choice([2, 4])
            n = s.choice([2, 3, 4])
            P.add('cached_part_precalc', s.randint(0, mx * n), n, 0, mx)
        elif r < 0.8:
            P.add('multinomln', [s.randint(0, 4) for _ in range(3)])
        elif r < 0.9:
            xx = _grid(s, P, s.choice([6, 8, 8, 10]))
            P.add('cached_dbeta', s.choice(NS), xx)
        elif r < 0.93:
            g = P.add('grid_quadratic', s.choice([20, 24])) if s.chance(0.5) else P.add('grid', s.choice([6, 8, 10]))
            P.add('end_point_first_derivs', g)
            P.add('estimate_best_exp_grid_crwd', [s.choice([4, 10, 20])])
        else:
            a = P.add('mk_array', s.randint(0, 3), [6, 4])
            P.add('array_file_roundtrip', a)
            ax = s.choice([0, 1, -1])
            P.add('trapz', a, P.add('grid', 4 if ax in (1, -1) else None) if ax in (1, -1) else None, None if ax in (1, -1) else {'$arr': [0.5] * 5}, ax)
            P.add('reverse_array', a)
    return P


def g_lowpass(s, P):
    cov = s.choice([[[0, 1, 2, 3, 4, 5], [0.05, 0.25, 0.3, 0.2, 0.15, 0.05]], [[1, 2, 3, 4, 6, 8], [0.1, 0.2, 0.3, 0.2, 0.1, 0.1]]])
    cov = {'$arr': cov}
    for _ in range(s.randint(2, 5)):
        r = s.random()
        nseq = s.choice([4, 6, 8])
        nsub = s.choice([x for x in (2, 4, 6) if x <= nseq])
        F = s.choice([0, 0.3])
        if r < 0.3:
            if s.chance(0.5):
                P.add('LP.partitions_and_probabilities', nseq, 'genotype', F)
            else:
                P.add('LP.partitions_and_probabilities', nseq, 'allele_frequency', F, s.randint(0, nseq))
        elif r < 0.5:
            P.add('LP.projection_matrix', nseq, nsub, F)
        elif r < 0.7:
            P.add('LP.calling_error_matrix', cov, nsub, F)
        elif r < 0.85:
            P.add('LP.probability_of_no_call', cov, nseq, F)
        elif r < 0.93:
            P.add('LP.probability_enough_individuals_covered', cov, nseq, nsub)
        else:
            g = P.add('mk_genotypes', s.randint(0, 3), 12, nseq // 2 + 2)
            P.add('LP.subsample_genotypes', g, nsub)
    return P


def g_datadict(s, P):
    pops = s.choice([['YRI'], ['YRI'], ['YRI', 'CEU']])
    nchrom = [s.choice([6, 8]) for _ in pops]
    dd = P.add('mk_data_dict', s.randint(0, 3), s.choice([12, 25]), pops, nchrom, s.choice([2, 4]))
    for _ in range(s.randint(1, 3)):
        proj = [s.choice([2, 3, 4]) for _ in pops]
        r = s.random()
        if r < 0.5:
            fs = P.add('from_data_dict', dd, pops, proj, True, s.chance(0.7))
            if s.chance(0.5):
                P.add('S.project', fs, [s.randint(1, n) for n in proj])
        elif r < 0.65:
            P.add('count_data_dict', dd, pops)
        elif r < 0.8:
            P.add('fragment_data_dict', dd, s.choice([150, 400]))
        else:
            P.add('bootstraps_from_dd', dd, s.choice([150, 400]), 3, pops, proj)
    return P


def g_lowpass_dd(s, P):
    """coverage distributions computed from a data dictionary of two populations with different depth, fed to the low-pass model"""
    pops = s.choice([['YRI', 'CEU'], ['wolf', 'dog'], ['a_pop', 'b_pop']])
    if s.chance(0.5):
        pops = pops[::-1]
    nchrom = [s.choice([4, 6]), s.choice([4, 6])]
    dd = P.add('mk_data_dict', s.randint(0, 3), 20, pops, nchrom, 4)
    P.add('LP.compute_cov_dist', dd, pops)
    if s.chance(0.7):
        f = {'$fn': 'model', 'id': 'split_mig'}
        P.add('LP.lowpass_from_dd', f, [1.0, 2.0, 0.05, 1.0], [2, 2], [8], dd, pops, nchrom)
    return P


LIB = [('Demographics1D', 'two_epoch', [[0.5, 0.05], [2.0, 0.1]], 1), ('Demographics1D', 'growth', [[2.0, 0.05], [0.5, 0.1]], 1),
       ('Demographics1D', 'bottlegrowth_1d', [[0.5, 2.0, 0.05]], 1), ('Demographics1D', 'three_epoch', [[0.5, 2.0, 0.05, 0.02]], 1),
       ('Demographics2D', 'bottlegrowth_split', [[0.5, 2.0, 0.05, 0.02]], 2), ('Demographics2D', 'bottlegrowth_split_mig', [[0.5, 2.0, 0.05, 0.02, 1.0]], 2),
       ('Demographics2D', 'split_asym_mig', [[1.0, 2.0, 0.05, 1.0, 0.5]], 2), ('Demographics2D', 'split_delay_mig', [[1.0, 2.0, 0.03, 0.02, 1.0, 0.5]], 2),
       ('Demographics2D', 'IM', [[0.4, 1.0, 2.0, 0.05, 1.0, 0.5]], 2), ('Demographics2D', 'IM_pre', [[1.5, 0.02, 0.4, 1.0, 2.0, 0.05, 1.0, 0.5]], 2),
       ('Demographics3D', 'out_of_africa', [[1.5, 0.5, 0.3, 2.0, 0.3, 3.0, 0.5, 0.2, 0.3, 0.1, 0.05, 0.03, 0.02]], 3)]


def g_library(s, P):
    """library models (compositions of the integrators and PhiManip) through grid extrapolation"""
    for _ in range(s.randint(1, 2)):
        mod, name, plist, nd = s.choice(LIB)
        f = {'$fn': 'model', 'id': 'lib', 'args': [mod, name]}
        ns = [s.choice([2, 3, 4]) for _ in range(nd)]
        pts = s.choice([[8], [8, 10]]) if nd < 3 else [6]
        fs = P.add('extrap_call', f, s.choice(plist), ns, pts)
        if s.chance(0.5):
            _spec_tail(s, P, fs, ns)
    return P


def g_nlopt(s, P):
    f = {'$fn': 'model', 'id': 'two_epoch'}
    ns = [s.choice([4, 6])]
    pts = [8]
    truth = P.add('extrap_call', f, [s.choice([0.5, 2.0]), s.choice([0.05, 0.1])], ns, pts)
    data = P.add('S.scale', truth, s.choice([50.0, 200.0]))
    kw = dict(lower_bound=[0.1, 0.01], upper_bound=[10.0, 1.0], maxeval=s.choice([8, 15]), multinom=s.chance(0.7))
    if s.chance(0.3):
        kw['fixed_params'] = [None, 0.05]
    if s.chance(0.3):
        kw['upper_bound'] = [None, 1.0]
    P.add('nlopt_opt', [1.0, 0.07], data, f, pts, **kw)
    return P


def g_optgrid(s, P):
    """brute-force grid search with full output (thetas come back through Inference._theta_store), twice, on different data"""
    f = {'$fn': 'model', 'id': 'two_epoch'}
    ns = [s.choice([4, 6])]
    pts = [8]
    grid = [[0.5, 2.1, 0.75], [0.02, 0.11, 0.04]]
    for _ in range(s.randint(1, 2)):
        truth = P.add('extrap_call', f, [s.choice([0.5, 2.0]), s.choice([0.05, 0.1])], ns, pts)
        data = P.add('S.scale', truth, s.choice([20.0, 100.0, 300.0]))
        P.add('optimize_grid', data, f, pts, grid, full_output=s.chance(0.7), multinom=s.chance(0.7))
    return P


def g_lowpass_model(s, P):
    """low-pass corrected model: two corrections with the same subsample sizes and different coverage distributions"""
    f = {'$fn': 'model', 'id': 'two_epoch'}
    nseq = [s.choice([6, 8])]
    nsub = [s.choice([4, 6])]
    nsub = [min(nsub[0], nseq[0])]
    pts = [s.choice([10, 12])]
    covs = [[[0, 1, 2, 3, 4, 5], [0.05, 0.25, 0.3, 0.2, 0.15, 0.05]], [[1, 2, 3, 4, 6, 8], [0.1, 0.2, 0.3, 0.2, 0.1, 0.1]],
            [[2, 4, 8, 16, 20, 30], [0.1, 0.2, 0.3, 0.2, 0.1, 0.1]]]
    for c in s.sample(covs, s.randint(1, 2)):
        P.add('LP.lowpass_call', f, [s.choice([0.5, 2.0]), 0.05], nsub, pts, [c], nseq, s.choice([None, [0.3]]))
    return P


def g_opthelp(s, P):
    for _ in range(s.randint(1, 3)):
        k = s.randint(2, 4)
        p = [s.choice([0.5, 1.0, 2.0, 10.0]) for _ in range(k)]
        lb = [s.choice([None, 1e-2, 0.1]) for _ in range(k)]
        ub = [s.choice([None, 20.0, 100.0]) for _ in range(k)]
        if s.chance(0.5):
            P.add('perturb_params', {'$arr': p} if s.chance(0.5) else p, s.choice([1, 2]), lb if s.chance(0.8) else None, ub if s.chance(0.8) else None)
        fixed = [s.choice([None, None, 1.5]) for _ in range(k)]
        down = P.add('project_params_down', p, fixed)
        P.add('project_params_up', down, fixed)
    return P


def g_badcalls(s, P):
    """fault injection at the API: calls that are documented (or bound) to raise, interleaved with ordinary ones; what raises must
    raise the same way in the pristine run, and must leave nothing behind that changes any later call"""
    pts = s.choice([6, 8])
    xx = P.add('grid', pts)
    phi1 = P.add('phi_1D', xx)
    phi2 = P.add('phi_1D_to_2D', xx, phi1)
    fs = P.add('from_phi', phi2, [4, 3], T(xx, xx))
    f1 = P.add('mk_spectrum', s.randint(0, 3), [7], 0.1)
    for _ in range(s.randint(2, 6)):
        r = s.randrange(15)
        if r == 0:
            P.add('S.project', fs, [6, 3])                      # projecting up
        elif r == 1:
            P.add('S.fold', P.add('S.fold', fs))                # folding a folded spectrum
        elif r == 2:
            P.add('Integration.two_pops', phi2, xx, 0.01, 1.0, 1.0, initial_t=0.05)     # T < initial_t
        elif r == 3:
            P.add('Integration.two_pops', phi2, xx, 0.02, 1.0, 1.0, frozen1=True, m12=1.0)   # frozen with migration
        elif r == 4:
            p3 = P.add('phi_2D_to_3D_split_1', xx, phi2)
            P.add('phi_3D_to_4D', p3, 0.8, 0.8, xx, xx, xx, xx)  # admixture proportions > 1
        elif r == 5:
            P.add('from_phi', phi2, [4], T(xx))                  # dimension mismatch
        elif r == 6:
            P.add('cached_projection', 4, 2, 1)                  # projecting from fewer samples: documented short-circuit
        elif r == 7:
            P.add('S.marginalize', fs, [5])                      # no such axis
        elif r == 8:
            P.add('ll_multinom', fs, f1)                         # shapes do not match
        elif r == 9:
            P.add('LP.partitions_and_probabilities', 5, 'allele_frequency', 0, 2)     # odd number of haplotypes
        elif r == 10:
            P.add('from_phi_inbreeding', phi2, [4, 4], T(xx, xx), [0.1], [2, 2])      # one inbreeding coefficient for two pops
        elif r == 11:
            P.add('G.sum_chi2_ppf', 1.0, [0.5, 0.6])             # weights do not sum to one
        elif r == 12:
            P.add('phi_2D_to_3D_admix', phi2, 1.5, xx, xx, xx)   # f > 1
        elif r == 13:
            P.add('cuda_enabled', True)                          # no GPU here: the import fails and is handled; must leave the CPU path intact
        else:
            P.add('Integration.one_pop', phi1, xx, 0.01, -1.0)   # negative population size
        # ordinary calls afterwards
        q = s.randrange(6)
        if q == 0:
            P.add('S.project', fs, [2, 2])
        elif q == 1:
            P.add('Integration.two_pops', phi2, xx, 0.02, 1.0, 2.0, m12=1.0)
        elif q == 2:
            P.add('S.fold', f1)
        elif q == 3:
            P.add('from_phi', phi2, [3, 3], T(xx, xx))
        elif q == 4:
            P.add('ORACLE.demes_output_twice', pts, s.choice([0.1, 0.3]), 0.03, 0.02, s.choice([100, 1000]))
        else:
            P.add('E4.seterr_probe')
    if s.chance(0.3):
        # the caller edits the grid it was handed, in place; other clients' and later grids of the same size must not notice
        g2 = P.add(s.choice(['grid', 'grid_exp']), s.choice([6, 8, 10]))
        P.add('A.setitem', g2, s.randint(1, 4), 0.123)
    return P


def g_objective(s, P):
    """the objective function behind every optimiser wrapper, on a real model, with bounds / fixed parameters"""
    mid = s.choice(['two_epoch_raw', 'two_epoch_raw', 'growth_raw'])
    f = {'$fn': 'model', 'id': mid}
    ns = [s.choice([4, 6])]
    pts = s.choice([[8, 10], [10, 12, 14], [10]])
    ex = {'$fn': 'model', 'id': 'two_epoch' if mid == 'two_epoch_raw' else 'growth'}
    truth = P.add('extrap_call', ex, [s.choice([0.5, 2.0]), s.choice([0.05, 0.1])], ns, pts)
    data = P.add('S.scale', truth, s.choice([20.0, 100.0]))
    for _ in range(s.randint(1, 3)):
        p = [s.choice([0.5, 1.0, 2.0]), s.choice([0.02, 0.05, 0.1])]
        kw = {'multinom': s.chance(0.6)}
        if s.chance(0.5):
            kw['lower_bound'] = [s.choice([None, 0.1, 1.5]), None]
            kw['upper_bound'] = [s.choice([None, 10]), s.choice([None, 0.04])]
        if s.chance(0.3):
            kw['fixed_params'] = [None, 0.05]
            p = [p[0]]
        if s.chance(0.3):
            kw['store_thetas'] = True
        if s.chance(0.2):
            kw['ll_scale'] = 10.0
        if s.chance(0.3):
            kwd = P.add('mk_value', {'scale': s.choice([1.0, 2.0])})
            fk = {'$fn': 'model', 'id': 'two_epoch_kw'}
            pp = [s.choice([0.5, 1.0, 2.0]), s.choice([0.02, 0.05])]
            P.add('object_func', pp, data, fk, [8], func_kwargs=kwd, multinom=kw['multinom'])
            P.add('object_func', pp, data, fk, [10], func_kwargs=kwd, func_args=[0.25], multinom=kw['multinom'])
        P.add('object_func', p, data, ex, pts, **kw)
    return P


def g_inbreeding(s, P):
    pts = s.choice([8, 10])
    xx = P.add('grid', pts)
    phi = P.add('phi_1D', xx)
    W = (lambda v: {'$arr': v}) if s.chance(0.4) else (lambda v: v)
    if s.chance(0.5):
        n = s.choice([4, 8])
        r1 = P.add('from_phi_inbreeding', phi, [n], T(xx), W([s.choice([0.2, 0.6, 1.0])]), [s.choice([2, 4])])
    else:
        phi = P.add('phi_1D_to_2D', xx, phi)
        phi = P.add('Integration.two_pops', phi, xx, 0.02, 1.0, 2.0)
        Fs, pl = [s.choice([0.2, 0.6, 1.0]), s.choice([0.1, 0.5])], [2, s.choice([2, 4])]
        P.add('from_phi_inbreeding', phi, [4, 4], T(xx, xx), W(Fs), pl)
        if s.chance(0.5):
            # the same sampling with and without ascertainment on heterozygosity in one population (E5: one option differs)
            for ha in s.sample([None, 'xx', 'yy'], 2):
                P.add('from_phi_inbreeding', phi, [4, 4], T(xx, xx), W(Fs), pl, het_ascertained=ha)
    return P


def g_extrap(s, P):
    pts_l = s.choice([[8], [8, 10], [8, 10, 12], [6, 8, 10]])
    mid = s.choice(['two_epoch', 'growth', 'split_mig'])
    f = {'$fn': 'model', 'id': mid}
    if mid == 'split_mig':
        params = [s.choice([0.5, 1.0]), s.choice([1.0, 2.0]), s.choice([0.02, 0.05]), s.choice([0, 1.0])]
        ns = [s.choice([2, 3]), s.choice([2, 3])]
    else:
        params = [s.choice([0.5, 2.0]), s.choice([0.02, 0.05])]
        ns = [s.choice(NS)]
    fs = P.add('extrap_call', f, params, ns, pts_l)
    if s.chance(0.5):
        P.add('extrap_call', f, params, ns, pts_l)
    if s.chance(0.3):
        P.add('misid_call', f, params + [s.choice([0.0, 0.05])], ns, pts_l)
    _spec_tail(s, P, fs, ns)
    return P


DEMES_CASES = [
    ('split2', ['A', 'B'], [3, 2]), ('split2', ['B', 'A'], [2, 2]), ('split2_mig', ['zeta', 'alpha'], [2, 3]), ('split2_mig', ['alpha', 'zeta'], [2, 2]),
    ('tree3', ['X1', 'X2', 'Y'], [2, 2, 2]), ('tree3', ['Y', 'X2', 'X1'], [2, 2, 2]), ('tree3', ['X1', 'Y'], [2, 3]),
    ('tree4', ['pear', 'apple', 'fig', 'kiwi'], [2, 2, 2, 2]), ('tree4', ['kiwi', 'pear', 'fig', 'apple'], [2, 2, 2, 2]), ('tree4', ['fig', 'apple'], [2, 2]),
    ('tree5', ['z5', 'a6', 'q2', 'm3', 'b4'], [2, 2, 2, 2, 2]), ('tree5', ['q2', 'z5', 'b4', 'a6'], [2, 2, 2, 2]),
    ('branch', ['main', 'side'], [3, 3]), ('pulse', ['north', 'east'], [2, 3]), ('pulse', ['east', 'north'], [2, 2]),
    ('admix', ['uno', 'dos', 'mix'], [2, 2, 2]), ('admix', ['mix', 'uno'], [2, 2]),
    ('file:gutenkunst_ooa', ['YRI', 'CEU', 'CHB'], [2, 2, 2]), ('file:gutenkunst_ooa', ['CHB', 'YRI'], [2, 3]), ('file:gutenkunst_ooa', ['CEU'], [4]),
    ('file:browning_america', ['AFR', 'EUR', 'EAS', 'ADMIX'], [2, 2, 2, 2]), ('file:browning_america', ['ADMIX', 'AFR'], [2, 2]),
    ('file:offshoots', ['ancestral', 'offshoot1', 'offshoot2'], [2, 2, 2]), ('file:offshoots', ['offshoot2', 'ancestral'], [2, 2]),
    ('file:bottleneck', ['our_population'], [4]), ('file:two_epoch', ['deme0'], [3]), ('file:cloning_example', ['pop1', 'pop2'], [2, 2]),
]


ANCIENT_CASES = [('split2', ['A', 'B'], [2, 2], [0, 50]), ('split2_mig', ['zeta', 'alpha'], [2, 2], [30, 0]), ('tree3', ['X1', 'Y'], [2, 2], [0, 40]),
                 ('branch', ['main', 'side'], [2, 2], [20, 0]), ('pulse', ['north', 'east'], [2, 2], [0, 10])]


def g_demes(s, P):
    for _ in range(s.randint(1, 2)):
        if s.chance(0.2):
            # ancient samples: the same lists are handed over twice
            gid, sd, ns, st = s.choice(ANCIENT_CASES)
            P.add('from_demes', gid, sd, ns, s.choice([6, 8]), st)
            continue
        gid, sd, ns = s.choice(DEMES_CASES)
        pts = 6 if len(sd) >= 4 else s.choice([6, 8])
        if s.chance(0.25):
            fs = P.add('from_demes', gid, sd, ns, pts, None, None, True)       # through a YAML file of a fixed name
        else:
            fs = P.add('from_demes', gid, sd, ns, pts)
        if s.chance(0.4):
            P.add('S.fold', fs)
    return P


def g_godambe(s, P, light=True):
    """C19 ops: stub linear Poisson models + a few real models, tiny pools"""
    k = s.choice([1, 2, 2, 3])
    ns = s.choice([[6], [8], [3, 3]])
    seed = s.choice([0, 1])
    multinom = s.chance(0.5)
    f = {'$fn': 'model', 'id': 'linear', 'args': [k, seed, multinom]}
    p0 = [s.choice([0.5, 1.0, 2.0]) for _ in range(k)]
    pts = s.choice([[10], [10], [12]])
    model = P.add('model_eval', f, p0, ns, pts)
    data = P.add('S.scale', model, s.choice([1.0, 3.0])) if s.chance(0.3) else P.add('mk_spectrum', s.randint(0, 3), [n + 1 for n in ns], 0.0, False, None, 8.0)
    allboots = [P.add('mk_spectrum', 10 + b, [n + 1 for n in ns], 0.0, False, None, 8.0) for b in range(s.choice([4, 5, 6]))]
    boots = allboots
    eps = s.choice([0.01, 0.01, 0.001])
    arr = s.chance(0.4)
    W = (lambda v: {'$arr': v}) if arr else (lambda v: v)
    for _ in range(s.randint(1, 3)):
        r = s.random()
        # calls of one analysis need not use the same number of bootstraps
        boots = allboots if s.chance(0.5) else allboots[:s.randint(3, len(allboots) - 1)]
        if r < 0.25:
            lg = s.chance(0.3)
            P.add('G.FIM_uncert', f, pts, W(p0), data, **dict(multinom=multinom, eps=eps, log=lg))
            if s.chance(0.3):
                # the caller masks one more entry of its data in place and repeats the call on the same object
                P.add('S.mask_entry', data, s.randint(1, 6))
                P.add('G.FIM_uncert', f, pts, W(p0), data, **dict(multinom=multinom, eps=eps, log=lg))
            if s.chance(0.4):
                # the same call on another grid setting (E5: everything but the grid agrees)
                P.add('G.FIM_uncert', f, [14] if pts != [14] else [10], W(p0), data, **dict(multinom=multinom, eps=eps, log=lg))
            if s.chance(0.3):
                # the same analysis on the folded data, before or after (E5: everything but the folding of the data agrees)
                dataf = P.add('S.fold', data)
                if s.chance(0.5):
                    P.add('G.FIM_uncert', f, pts, W(p0), dataf, **dict(multinom=multinom, eps=eps, log=lg))
                    P.add('G.FIM_uncert', f, pts, W(p0), data, **dict(multinom=multinom, eps=eps, log=lg))
                else:
                    P.add('G.FIM_uncert', f, pts, W(p0), dataf, **dict(multinom=multinom, eps=eps, log=lg))
        elif r < 0.5:
            P.add('G.GIM_uncert', f, pts, boots, W(p0), data, **dict(multinom=multinom, eps=eps, log=s.chance(0.3)))
        elif r < 0.7 and k >= 2:
            nested = sorted(s.sample(list(range(k)), s.randint(1, k - 1)))
            p0n = list(p0)
            for i in nested:
                p0n[i] = s.choice([0, 0, 1.0])
            P.add('G.LRT_adjust', f, pts, boots, W(p0n), data, nested, **dict(multinom=multinom, eps=eps))
        elif r < 0.85 and k >= 2:
            nested = [s.randrange(k)]
            p0n = list(p0)
            p0n[nested[0]] = s.choice([0, 1.0])
            P.add('G.score_stat', f, pts, boots, W(p0n), data, nested, **dict(multinom=multinom, eps=eps))
        elif k >= 2:
            nested = [s.randrange(k)]
            p0n = list(p0)
            p0n[nested[0]] = s.choice([0, 1.0])
            P.add('G.Wald_stat', f, pts, boots, W(p0n), data, nested, W(p0), **dict(multinom=multinom, eps=eps))
        else:
            P.add('G.sum_chi2_ppf', s.choice([0.5, [0.0, 1.0, 2.5]]), s.choice([[0, 1], [0.5, 0.5], [0.25, 0.5, 0.25]]))
    return P


def g_godambe_neg(s, P):
    """affine model with a large offset so that a coefficient may be negative; consecutive calls differ only in one
    parameter drawn from a tiny pool containing -1.0 and -2.0 (distinct floats that CPython hashes alike)"""
    k = s.choice([2, 3])
    ns = s.choice([[6], [8]])
    seed = s.choice([0, 1])
    multinom = s.chance(0.5)
    f = {'$fn': 'model', 'id': 'linear', 'args': [k, seed, True, 14.0]}
    base = [s.choice([0.5, 1.0, 2.0]) for _ in range(k)]
    j = s.randrange(k)
    pts = [10]
    data = P.add('mk_spectrum', s.randint(0, 3), [n + 1 for n in ns], 0.0, False, None, 30.0)
    boots = [P.add('mk_spectrum', 10 + b, [n + 1 for n in ns], 0.0, False, None, 30.0) for b in range(k + 3)]
    vals = s.sample([-1.0, -2.0, -0.5, 1.0], s.randint(2, 3))
    for v in vals:
        p0 = list(base)
        p0[j] = v
        if s.chance(0.5):
            P.add('G.FIM_uncert', f, pts, p0, data, multinom=multinom, eps=0.01)
        else:
            P.add('G.GIM_uncert', f, pts, boots, p0, data, multinom=multinom, eps=0.01)
    return P


def g_godambe_real(s, P):
    f = {'$fn': 'model', 'id': 'two_epoch'}
    ns = [s.choice([6, 8])]
    p0 = [s.choice([0.5, 2.0]), s.choice([0.05, 0.1])]
    pts = [s.choice([10, 12])]
    model = P.add('extrap_call', f, p0, ns, pts)
    data = P.add('S.scale', model, 50.0)
    r = s.random()
    if r < 0.5:
        mn = s.chance(0.5)
        P.add('G.FIM_uncert', f, pts, p0, data, multinom=mn)
        if s.chance(0.5):
            P.add('G.FIM_uncert', f, [pts[0] + 4], p0, data, multinom=mn)
    else:
        boots = [P.add('mk_spectrum', 20 + b, [ns[0] + 1], 0.0, False, None, 20.0) for b in range(3)]
        P.add('G.GIM_uncert', f, pts, boots, p0, data, multinom=s.chance(0.5))
    return P


def g_interference(s, P):
    fs = P.add('mk_spectrum', s.randint(0, 3), [5, 4], 0.0, False, None, 5.0, True)
    for _ in range(s.randint(2, 6)):
        r = s.random()
        if r < 0.35:
            P.add('E1.churn', s.choice([3, 20, 100]), s.randint(0, 5))
        elif r < 0.55:
            P.add('E4.np_seed', s.randint(0, 5))
        elif r < 0.65:
            P.add('E4.py_seed', s.randint(0, 5))
        elif r < 0.85:
            P.add('E4.sample', fs)
        else:
            P.add('E4.fixed_size_sample', fs, 10)
    return P


# ---- round 2 templates (functions the reach audit found never executed)

def g_optimisers(s, P):
    """short runs of the scipy-based optimiser wrappers: bounds / fixed-parameter lists and p0 must survive, the point found must
    not depend on what the objective's module-level counters and theta store saw before"""
    f = {'$fn': 'model', 'id': 'two_epoch'}
    ns = [s.choice([4, 6])]
    pts = [8]
    truth = P.add('extrap_call', f, [s.choice([0.5, 2.0]), s.choice([0.05, 0.1])], ns, pts)
    data = P.add('S.scale', truth, s.choice([50.0, 200.0]))
    if s.chance(0.3):
        data = P.add('S.fold', data)
    kwd = argl = None
    for _ in range(s.randint(1, 3)):
        which = s.choice(['optimize_log', 'optimize_log', 'optimize', 'optimize_log_fmin', 'optimize_cons'])
        kw = dict(maxiter=s.choice([1, 2]), multinom=s.chance(0.6), verbose=s.choice([0, 1]))
        # the time parameter is always bounded above: an unbounded line search may ask for an integration over exp(large) time units
        kw['lower_bound'] = [s.choice([0.1, None]), 0.01]
        kw['upper_bound'] = [s.choice([10.0, None]), 1.0]
        p0 = [s.choice([1.0, 1.5]), 0.07]
        if s.chance(0.3):
            kw['fixed_params'] = [None, 0.05]
        if s.chance(0.3):
            kw['full_output'] = True
        if s.chance(0.2) and which != 'optimize_log_fmin':
            kw['ll_scale'] = 10.0
        fm, fpts = f, pts
        if s.chance(0.35):
            # a model with extra positional / keyword arguments; the caller keeps the containers and reuses them on another grid
            fm = {'$fn': 'model', 'id': 'two_epoch_kw'}
            if kwd is None:
                kwd = P.add('mk_value', {'scale': s.choice([1.0, 2.0])})
                argl = P.add('mk_value', [s.choice([0.0, 0.25])])
            kw['func_kwargs'] = kwd
            if s.chance(0.6):
                kw['func_args'] = argl
            fpts = s.choice([[8], [10]])
        P.add('OPT.scipy', which, {'$arr': p0} if s.chance(0.4) else p0, data, fm, fpts, **kw)
        if s.chance(0.4):
            P.add('object_func', [s.choice([0.5, 2.0]), 0.05], data, f, pts, multinom=s.chance(0.5), store_thetas=s.chance(0.5))
        elif s.chance(0.3):
            P.add('object_func_log', [0.0, -3.0], data, f, pts, multinom=s.chance(0.5))
    return P


def g_xchrom(s, P):
    pts = s.choice(PTS)
    xx = _grid(s, P, pts)
    nu, gamma, h = s.choice([0.5, 1.0, 2.0]), s.choice([0, -2.0, 3.0]), s.choice([0.5, 0.2])
    beta, alpha = s.choice([1, 3.0, 0.5]), s.choice([1, 2.0])
    phi = P.add('phi_1D_X', xx, nu, s.choice([1.0, 2.0]), gamma, h, beta, alpha)
    for _ in range(s.randint(1, 2)):
        ikw = {}
        if s.chance(0.15):
            ikw['frozen'] = True
        if s.chance(0.3):
            ikw['theta0'] = s.choice([1.0, 2.0])
        phi = P.add('Integration.one_pop_X', phi, xx, _T(s), s.choice([0.5, 1.0, 2.0]), gamma, h, beta, alpha, **ikw)
    n = s.choice(NS)
    fs = P.add('from_phi', phi, [n], T(xx))
    if s.chance(0.5):
        _spec_tail(s, P, fs, [n])
    return P


def g_persist(s, P):
    """pickling, printing and file round trips of spectra (masks, folding, labels), then ordinary work on the copies"""
    nd = s.choice([1, 1, 2, 2, 3])
    shape = [s.choice([3, 4, 5]) for _ in range(nd)]
    ids = [None, ['A', 'B', 'C'][:nd], ['pop one', 'p2', 'x'][:nd]]
    fs = P.add('mk_spectrum', s.randint(0, 5), shape, s.choice([0.0, 0.2]), s.chance(0.3), s.choice(ids), 5.0, False, s.chance(0.8))
    for _ in range(s.randint(2, 4)):
        r = s.random()
        if r < 0.4:
            c = P.add('S.pickle_roundtrip', fs)
        elif r < 0.55:
            P.add(s.choice(['S.repr', 'S.str']), fs)
            continue
        elif r < 0.8:
            c = P.add('S.file_roundtrip', fs, s.choice([16, 17, 20]), s.chance(0.8))
        else:
            c = P.add('S.copy', fs)
        x = s.random()
        if x < 0.3:
            _inplace_on(s, P, c)
            P.add('S.sum', fs)
        elif x < 0.6:
            P.add('S.add', fs, c)
        elif x < 0.8:
            P.add('S.S', c)
    return P


def g_vcf(s, P):
    """the VCF parser on a private excerpt of the bundled file: dictionaries, spectra, chunks and subsampled bootstraps"""
    nrec, skip = s.choice([30, 60]), s.choice([0, 0, 200])
    pops = ['pop1', 'pop2']
    if s.chance(0.4):
        sub = {'pop1': s.choice([2, 3]), 'pop2': s.choice([3, 4])}
        dd = P.add('vcf_data_dict', nrec, skip, sub, s.randint(0, 3), s.chance(0.5))
        proj = [2 * sub['pop1'], 2 * sub['pop2']]
    else:
        dd = P.add('vcf_data_dict', nrec, skip, None, None, s.chance(0.4), s.chance(0.2))
        proj = [s.choice([2, 4]), s.choice([2, 4])]
    for _ in range(s.randint(1, 3)):
        r = s.random()
        if r < 0.2:
            P.add('dd_keys', dd)
        elif r < 0.55:
            fs = P.add('from_data_dict', dd, pops if s.chance(0.7) else pops[::-1], proj, True, s.chance(0.5))
            if s.chance(0.4):
                P.add('S.S', fs)
        elif r < 0.7:
            P.add('count_data_dict', dd, pops)
        elif r < 0.85:
            P.add('fragment_data_dict', dd, s.choice([5000, 20000]))
        else:
            P.add('bootstraps_from_dd', dd, s.choice([5000, 20000]), 2, pops, proj, s.chance(0.5))
    if s.chance(0.25):
        P.add('vcf_bootstraps', nrec, {'pop1': 2, 'pop2': 3}, 2, s.choice([5000, 20000]), pops)
    return P


def g_lowpass_sim(s, P):
    """the simulation branch of the low-pass model; the simulator owns LowPass.rng and the global numpy RNG"""
    covs = [[[0, 1, 2, 3, 4, 5], [0.05, 0.25, 0.3, 0.2, 0.15, 0.05]], [[1, 2, 3, 4, 6, 8], [0.1, 0.2, 0.3, 0.2, 0.1, 0.1]]]
    for _ in range(s.randint(1, 3)):
        r = s.random()
        nseq = s.choice([4, 6])
        nsub = s.choice([x for x in (2, 4) if x <= nseq])
        F = s.choice([0, 0.3])
        if r < 0.35:
            P.add('LP.simulate_calling', [s.choice(covs)], [s.randint(1, nseq - 1)], [nseq], [nsub], s.choice([20, 40]), [F], s.randint(0, 3))
        elif r < 0.75:
            f = {'$fn': 'model', 'id': 'two_epoch'}
            P.add('LP.lowpass_sim_call', f, [s.choice([0.5, 2.0]), 0.05], [nsub], [s.choice([10, 12])], [s.choice(covs)], [nseq],
                  s.choice([None, [0.3]]), s.choice([20, 40]), s.choice([1e-2, 0.2, 0.0]), s.randint(0, 3))
        else:
            g = P.add('mk_genotypes', s.randint(0, 3), 12, nseq // 2 + 2)
            P.add('LP.subsample_genotypes_seeded', g, nsub, s.randint(0, 3))
    return P


def g_misc2(s, P):
    """log-extrapolation wrapper, three-population inbreeding sampler, negated likelihoods"""
    r = s.random()
    if r < 0.4:
        mid = s.choice(['two_epoch_raw', 'growth_raw'])
        f = {'$fn': 'model', 'id': mid}
        pts_l = s.choice([[8, 10], [8, 10, 12], [6, 8, 10]])
        ns = [s.choice(NS)]
        fs = P.add('make_extrap_log_call', f, [s.choice([0.5, 2.0]), s.choice([0.02, 0.05])], ns, pts_l)
        if s.chance(0.5):
            _spec_tail(s, P, fs, ns)
    elif r < 0.7:
        xx = P.add('grid', s.choice([6, 8]))
        phi = P.add('phi_1D', xx)
        phi = P.add('phi_1D_to_2D', xx, phi)
        phi = P.add('phi_2D_to_3D_split_1', xx, phi)
        if s.chance(0.5):
            phi = P.add('Integration.three_pops', phi, xx, 0.02, 1.0, 2.0, 0.5)
        W = (lambda v: {'$arr': v}) if s.chance(0.4) else (lambda v: v)
        pl = s.choice([2, 4])
        P.add('from_phi_inbreeding', phi, [2, 2, pl], T(xx, xx, xx), W([s.choice([0.2, 0.6]), s.choice([0.1, 0.5]), 0.3]), [2, 2, pl])
    else:
        ns = [s.choice([3, 4])] * s.choice([1, 2])
        m = P.add('mk_spectrum', s.randint(0, 5), [n + 1 for n in ns], 0.0, False)
        d = P.add('mk_spectrum', s.randint(0, 5), [n + 1 for n in ns], s.choice([0.0, 0.2]), s.chance(0.3))
        P.add(s.choice(['minus_ll', 'minus_ll_multinom', 'Inference.ll_dict']), m, d)
    return P


def g_errstate(s, P):
    """dadi calls made inside the caller's own numpy.errstate block, on keys other clients hit too (cache hit or miss is history)"""
    kind = s.choice(['raise', 'warn', 'mixed'])
    n = s.choice([4, 6])
    fs = P.add('mk_spectrum', s.randint(0, 3), [n + 1], 0.0, False, None, 5.0, False, True)
    for _ in range(s.randint(2, 4)):
        r = s.random()
        if r < 0.35:
            P.add('ORACLE.errstate_scope', kind, 'S.project', fs, [s.randint(2, n)])
        elif r < 0.5:
            P.add('ORACLE.errstate_scope', kind, 'cached_projection', s.choice([2, 3, 4]), s.choice([6, 8]), s.choice([1, 2]))
        elif r < 0.6:
            P.add('ORACLE.errstate_scope', kind, 'LP.projection_matrix', s.choice([4, 6]), 2, 0)
        elif r < 0.7:
            P.add('ORACLE.errstate_scope', kind, 'S.fold', fs)
        elif r < 0.8:
            d = P.add('mk_spectrum', s.randint(0, 3), [n + 1], 0.2, False)
            P.add('ORACLE.errstate_scope', kind, s.choice(['ll_multinom', 'optimal_sfs_scaling', 'linear_Poisson_residual']), fs, d)
        else:
            pts = s.choice(PTS)
            xx = P.add('grid', pts)
            phi = P.add('phi_1D', xx)
            if s.chance(0.5):
                P.add('ORACLE.errstate_scope', kind, 'Integration.one_pop', phi, xx, 0.02, 2.0)
            else:
                P.add('ORACLE.errstate_scope', kind, 'from_phi', phi, [s.choice(NS)], T(xx))
    return P


def g_demes_export(s, P):
    """native models exported as demes graphs (deme order, epochs, migrations, pulses) and re-imported; sparse data dictionaries"""
    for _ in range(s.randint(1, 2)):
        r = P.add('demes_export', s.choice([6, 8]), s.randint(0, 3), s.choice([1000.0, 5000.0]), 2)
        if s.chance(0.3):
            P.add('ORACLE.demes_output_twice', 8, s.choice([0.1, 0.4]), 0.03, 0.02, s.choice([100, 1000]))
    if s.chance(0.6):
        pops = s.choice([['YRI'], ['YRI', 'CEU']])
        nchrom = [s.choice([6, 8]) for _ in pops]
        dd = P.add('mk_data_dict', s.randint(0, 3), s.choice([12, 25]), pops, nchrom, s.choice([2, 4]), T('chr1', 'chr2', 'scaffold_10'), s.randint(1, 3))
        proj = [s.choice([2, 3, 4]) for _ in pops]
        for _ in range(s.randint(1, 3)):
            x = s.random()
            if x < 0.4:
                P.add('from_data_dict', dd, pops, proj, True, s.chance(0.7))
            elif x < 0.6:
                P.add('count_data_dict', dd, pops)
            elif x < 0.8:
                P.add('fragment_data_dict', dd, s.choice([150, 400]))
            else:
                P.add('bootstraps_from_dd', dd, s.choice([150, 400]), 3, pops, proj)
    return P


def g_regrid_nd(s, P):
    """2-3 populations on two grids of equal length and different spacing, time-dependent path, with frozen subsets (a kernel
    that is skipped for a frozen population cannot refresh anything the other kernels share); the timestep knob in a scope"""
    nd = s.choice([2, 2, 3])
    pts = s.choice([6, 8])
    kinds = s.sample(['grid', 'grid_exp', 'grid_exp4', 'grid_cumsum'], 2)
    last = None
    for kind in kinds:
        xx = P.add('grid_exp', pts, 4.0) if kind == 'grid_exp4' else P.add(kind, pts)
        phi = P.add('phi_1D', xx)
        phi = P.add('phi_1D_to_2D', xx, phi)
        if nd == 3:
            phi = P.add('phi_2D_to_3D_split_1', xx, phi)
        kw = {}
        frozen = s.sample(list(range(1, nd + 1)), s.choice([0, 1, 1, 2]))
        for i in frozen:
            kw['frozen%d' % i] = True
        free = [i for i in range(1, nd + 1) if i not in frozen]
        nus = [s.choice([0.5, 1.0, 2.0]) for _ in range(nd)]
        if free:
            j = s.choice(free)
            nus[j - 1] = {'$fn': 'ramp', 'a': nus[j - 1], 'b': s.choice([0.0, 5.0])}
            if len(free) >= 2 and s.chance(0.4):
                a, b = s.sample(free, 2)
                kw['m%d%d' % (a, b)] = s.choice([0.5, {'$fn': 'const', 'v': 1.0}])
        else:
            kw['theta0'] = {'$fn': 'const', 'v': 1.0}
        T_ = s.choice([0.01, 0.03])
        if s.chance(0.3):
            ph2 = P.add('ts_scope', s.choice([pts, 20]), s.choice([10, 3]), phi, xx, T_, *nus, **kw)
        else:
            ph2 = P.add({2: 'Integration.two_pops', 3: 'Integration.three_pops'}[nd], phi, xx, T_, *nus, **kw)
        fs = P.add('from_phi', ph2, [2] * nd, T(*([xx] * nd)))
        if s.chance(0.6):
            P.steps.append({'r': '%sdrop%d' % (P.p, len(P.steps)), 'op': 'E1.forget', 'a': [xx['$'], phi['$'], ph2['$']]})
        last = fs
    P.add('S.fold', last)
    return P


TEMPLATES = [
    (g_chain1d, 10), (g_regrid, 4), (g_chain2d, 12), (g_chain3d, 7), (g_chain4d, 6), (g_chain5d, 2), (g_spectrum, 10), (g_numerics, 7),
    (g_badcalls, 5), (g_lowpass, 4), (g_lowpass_model, 2), (g_lowpass_dd, 3), (g_optgrid, 2), (g_nlopt, 2), (g_library, 6), (g_datadict, 5), (g_opthelp, 4), (g_objective, 3), (g_inbreeding, 4), (g_extrap, 5), (g_demes, 6), (g_godambe, 10), (g_godambe_neg, 2), (g_godambe_real, 2),
    (g_optimisers, 3), (g_xchrom, 3), (g_persist, 4), (g_vcf, 4), (g_lowpass_sim, 3), (g_misc2, 4), (g_errstate, 4), (g_demes_export, 4), (g_regrid_nd, 5),
]


def pick_template(s, table=TEMPLATES):
    tot = sum(w for _, w in table)
    x = s.random() * tot
    for g, w in table:
        x -= w
        if x < 0:
            return g
    return table[-1][0]


def gen_session(s, faults=True, table=TEMPLATES, max_ops=40):
    """-> job dict (explicit: programs, interleaving, layout fault map)"""
    ncl = s.choice([1, 2, 2, 3, 3, 4])
    clients = {}
    for c in range(ncl):
        cid = 'c%d' % c
        g = pick_template(s, table)
        P = g(s, Prog(s, cid + '_'))
        clients[cid] = P.steps
    if faults and s.chance(0.5):
        cid = 'cx'
        clients[cid] = g_interference(s, Prog(s, 'cx_')).steps
    # cap at max_ops by truncating the longest programs
    while sum(len(p) for p in clients.values()) > max_ops:
        longest = max(clients, key=lambda c: len(clients[c]))
        clients[longest] = clients[longest][:-1]
    # interleaving: seeded random merge with bursts
    remaining = {c: len(p) for c, p in clients.items()}
    order = []
    cur = None
    while any(remaining.values()):
        live = sorted(c for c, n in remaining.items() if n)
        if cur not in live or s.chance(0.5):
            cur = s.choice(live)
        order.append(cur)
        remaining[cur] -= 1
    layout = {}
    if faults:
        p = s.choice([0.0, 0.1, 0.3, 0.6])
        for cid, prog in clients.items():
            if any(st['op'].startswith(('G.', 'OPT.')) for st in prog):
                # finite-difference ops amplify the legitimate rounding difference of a re-ordered reduction by
                # 1/eps^2 and by the conditioning of J: no tolerance is sound there, so programs containing Godambe
                # calls get no layout faults (their layout independence is covered on well-conditioned cases in C19)
                continue
            for k, st in enumerate(prog):
                for ai, a in enumerate(st.get('a', [])):
                    if isinstance(a, dict) and ('$' in a or '$tuple' in a) and s.chance(p):
                        layout['%s:%d:%d' % (cid, k, ai)] = s.choice(LAYOUTS)
    return {'kind': 'session', 'clients': clients, 'order': order, 'layout': layout, 'timeout': 120}


def solo_job(job, cid):
    prog = job['clients'][cid]
    return {'kind': 'session', 'clients': {cid: prog}, 'order': [cid] * len(prog), 'layout': {}, 'timeout': 120}
