"""C17 driver: phases, fan-out, minimisation, replay, evidence."""
import collections, copy, itertools, os, sys, time, json
import numpy as np

from dsim import rng as R, harness as H
from checks import c17

PROP = 'C17'
ASSUMPTIONS = [
    'simulated OS processes are threads of one interpreter: they share dadi\'s module-level memo dictionaries (real children own copies); Process.start() deep-copies the bound self and all non-proxy arguments to keep fork semantics',
    'pre-emption only at seam operations (queue put/get, list append/read, process start/join, manager start/shutdown, model-evaluation entry): real children interact through the manager only',
    'manager server internals, signal delivery and spawn-mode pickling of bound methods are stubbed, not executed',
    'stub demography+selection models (deterministic element-wise arithmetic) stand in for dadi models in most runs; a per-tier fraction runs real DFE.DemogSelModels',
    'quadrature clauses contain no schedule: decided with seeded-sampling strength against an independent re-implementation that calls scipy quad/dblquad with the tolerances the code uses; per-weight tolerance 20x quad\'s own error estimate + 1e-9',
    'F5 (worker killed without reporting / unpicklable exception) is outside the property\'s quantifier: informational only, never gates the exit code',
]


# ------------------------------------------------------------------------------------------------
# work items  (pure functions of (root seed, phase, index))

def item_run(args):
    root, phase, idx, real_frac = args
    s = R.derive(root, phase, 'cfg', idx)
    if phase == 'enum':
        cfg = enum_cfg(root, idx)
    else:
        cfg = c17.gen_cfg(s, {'sched': 'sched', 'fault': 'fault', 'f5': 'f5'}[phase], real_frac)
    out, cache, log, v, ref = c17.run_cfg(cfg, stream=R.derive(root, phase, 'run', idx))
    res = {'phase': phase, 'idx': idx, 'sig': out['sig'], 'outcome': out['outcome'], 'exc_type': out.get('exc_type'),
           'steps': out['steps'], 'sim_time': out['sim_time'], 'fired': out['fired'], 'stats': out['stats'],
           'njobs': len(c17.owned_jobs(cfg)), 'cpus': cfg['cpus'], 'cache': cfg['cache'], 'real': cfg['model']['kind'].startswith('real:'),
           'nonfifo': out['nonfifo'], 'qdepth': out['qdepth'], 'sched_digest': out['sched_digest'],
           'split': cfg['split_jobs'], 'exitcodes': out['worker_exitcodes'], 'policy': cfg.get('policy', 'des')}
    if idx < 3:
        res['sample'] = {'cfg': cfg, 'schedule_prefix': log[:40], 'outcome': out['outcome'], 'exc_type': out.get('exc_type')}
    if v is not None:
        res['viol'] = {'class': v[0], 'message': v[1], 'cfg': cfg, 'decisions': log, 'trace_digest': out['trace_digest']}
    if phase == 'f5':
        res['f5'] = {'outcome': out['outcome'], 'fault': cfg['faults'][0]['kind'] if cfg['faults'] else None,
                     'absorbed': out['outcome'] == 'returned' and bool(out['fired']) and cache is not None and
                     (isinstance(ref, BaseException) or c17.compare_caches(cfg, ref, cache, True) is not None),
                     'split': cfg['split_jobs'] > 1}
    return res


def enum_cfg(root, idx):
    """F1 on every job index x worker counts, small grids: idx enumerates (grid, cpus, job, exc)."""
    combos = enum_space()
    cache, gp, add, cpus, job, exc = combos[idx]
    s = R.derive(root, 'enumcfg', idx)
    cfg = c17.gen_cfg(s, 'sched')
    cfg.update(cache=cache, gamma_pts=gp, additional_gammas=add, cpus=cpus, gpus=0, split_jobs=1, this_job_id=0, mode='fault')
    cfg['model'] = {'kind': 'stub_inj', 'ns': [2, 2] if cache == '2D' else [3], 'params': [], 'pts': [10, 20], 'pop_ids': None}
    cfg['speeds'] = {}
    cfg['faults'] = [{'kind': 'F2' if exc in c17.F2_KINDS else 'F1', 'job': job, 'exc': exc, 'nth': idx % 2}]
    return cfg


_ENUM = None


def enum_space():
    global _ENUM
    if _ENUM is None:
        out = []
        for cache, gp, add in (('1D', 3, [1.0]), ('1D', 5, []), ('2D', 2, []), ('2D', 2, [1.0])):
            n = gp + len(add)
            njobs = n if cache == '1D' else n * n
            for cpus in (2, 3, 4, 7, 16):
                for job in range(njobs):
                    for exc in ('ValueError', 'MemoryError', 'KeyboardInterrupt'):
                        out.append((cache, gp, add, cpus, job, exc))
        _ENUM = out
    return _ENUM


def item_merge(args):
    """exhaustive 3^k absent/once/twice patterns + a conflicting copy at every position, for one k"""
    root, k, rep = args
    s = R.derive(root, 'merge', k, rep)
    cfg = c17.gen_cfg(s, 'sched')
    cfg.update(cache='2D', gamma_pts=s.choice([2, 2, 3]), additional_gammas=s.choice([[], [1.0]]), cpus=s.choice([1, 2, 3, 5]),
               gpus=0, faults=[], speeds={}, profile='uniform', main_speed=1.0)
    cfg['model'] = {'kind': 'stub_inj', 'ns': [s.randint(1, 3), s.randint(1, 3)], 'params': [], 'pts': [10], 'pop_ids': None}
    parts, whole, err = c17.build_split(cfg, k, s)
    res = {'k': k, 'rep': rep, 'cases': 0, 'viols': [], 'patterns': 0, 'conflicts': 0}
    if err:
        res['viols'].append({'class': err[0], 'message': err[1], 'merge': {'root': root, 'k': k, 'rep': rep}})
        return res
    # split builds themselves must equal the slices of the unsplit cache (schedule independence of split jobs)
    n = len(whole.gammas)
    for j, p in enumerate(parts):
        for e in range(n * n):
            a = p.spectra[e // n][e % n]
            if (e % k == j) != (a is not None):
                res['viols'].append({'class': 'split-ownership', 'message': 'k=%d job %d entry %d' % (k, j, e),
                                     'merge': {'root': root, 'k': k, 'rep': rep}})
                return res
            if a is not None and not np.array_equal(np.ma.getdata(a), whole.spectra[e // n, e % n]):
                res['viols'].append({'class': 'split-differs-from-unsplit', 'message': 'k=%d job %d entry %d' % (k, j, e),
                                     'merge': {'root': root, 'k': k, 'rep': rep}})
                return res
    os_ = R.derive(root, 'mergeorder', k, rep)
    for pattern in itertools.product((0, 1, 2), repeat=k):
        if sum(pattern) == 0:
            continue
        v = c17.merge_case(parts, whole, pattern, os_)
        res['cases'] += 1
        res['patterns'] += 1
        if v:
            res['viols'].append({'class': v[0], 'message': v[1], 'merge': {'root': root, 'k': k, 'rep': rep, 'pattern': list(pattern)}})
    # conflicts: every job j duplicated with a conflicting copy, others present once; several positions
    for j in range(k):
        for pos in range(3):
            pattern = [1] * k
            pattern[j] = 2
            v = c17.merge_case(parts, whole, tuple(pattern), os_, conflict_at=(j, pos))
            res['cases'] += 1
            res['conflicts'] += 1
            if v:
                res['viols'].append({'class': v[0], 'message': v[1],
                                     'merge': {'root': root, 'k': k, 'rep': rep, 'pattern': pattern, 'conflict_at': [j, pos]}})
    # pieces from two different split settings
    k2 = s.choice([x for x in (1, 2, 3, 4, 5, 6) if x != k])
    partsB, _, errB = c17.build_split(cfg, k2, s)
    if not errB:
        ms = R.derive(root, 'mergemixed', k, rep)
        for t in range(40):
            pick = [('A', j) for j in range(k) if ms.chance(0.7)] + [('B', j) for j in range(k2) if ms.chance(0.6)]
            if not pick:
                continue
            conflict = (ms.randrange(len(pick)), ms.randrange(5)) if ms.chance(0.4) else None
            v = c17.merge_mixed_case(parts, partsB, whole, pick, os_, conflict)
            res['cases'] += 1
            res['mixed'] = res.get('mixed', 0) + 1
            if v:
                res['viols'].append({'class': v[0], 'message': v[1], 'merge': {'root': root, 'k': k, 'rep': rep, 'mixed': t}})
    if rep == 0:
        res['sample'] = {'k': k, 'grid': len(whole.gammas), 'patterns': res['patterns'], 'conflict_cases': res['conflicts']}
    return res


def item_quad(args):
    root, idx, real_frac = args
    s = R.derive(root, 'quad', idx)
    case = c17.gen_quad_case(s, real_frac)
    viol, probes = c17.quad_case(case, R.derive(root, 'quadrun', idx))
    res = {'idx': idx, 'clauses': case['q']['clauses'], 'probes': probes, 'viols': []}
    for cl, msg in viol:
        res['viols'].append({'class': cl, 'message': msg, 'quad': {'root': root, 'idx': idx, 'real_frac': real_frac}})
    if idx < 2:
        res['sample'] = {'pdf1': case['q']['pdf1'], 'params1': case['q']['params1'], 'pdf2': case['q']['pdf2'],
                         'params2': case['q']['params2'], 'theta': case['q']['theta'], 'clauses': case['q']['clauses'],
                         'gamma_bounds': case['c1']['gamma_bounds'], 'gamma_pts': [case['c1']['gamma_pts'], case['c2']['gamma_pts']]}
    return res


# ------------------------------------------------------------------------------------------------
# replay + minimise

def vdigest(cls, loc):
    return H.digest([cls, loc])


def replay_sim(rec):
    cfg, dec = rec['cfg'], rec['decisions']
    out, cache, log, v, ref = c17.run_cfg(cfg, decisions=dec)
    return v, out


def minimise_sim(viol, budget_s=60):
    """delta-debug cfg + decisions; a candidate is accepted only if the same violation class persists"""
    t0 = time.monotonic()
    cls = viol['class']
    best = {'cfg': copy.deepcopy(viol['cfg']), 'decisions': list(viol['decisions'])}

    def fails(cfg, dec, tries=0, tag=0):
        try:
            v, out = replay_sim({'cfg': cfg, 'decisions': dec})
        except Exception:
            return None
        if v is not None and v[0] == cls:
            return dec
        for t in range(tries):       # seeded search for a failing schedule of the reduced configuration
            out, cache, log, v, ref = c17.run_cfg(cfg, stream=R.derive(12345, 'min', tag, t))
            if v is not None and v[0] == cls:
                return log
        return None

    def attempt(mut, tries=6, tag=0):
        cfg = copy.deepcopy(best['cfg'])
        if mut(cfg) is False:
            return False
        if not c17.owned_jobs(cfg):
            return False
        jobs = set(c17.owned_jobs(cfg))
        cfg['faults'] = [f for f in cfg['faults'] if f['job'] in jobs or f['kind'] == 'F6start' or f['job'] == 'neutral']
        d = fails(cfg, [], tries, tag)
        if d is not None:
            best['cfg'], best['decisions'] = cfg, d
            return True
        return False
    # 1. default policy instead of the recorded schedule
    d = fails(best['cfg'], [])
    if d is not None:
        best['decisions'] = d
    muts = []
    muts.append(lambda c: c.update(buggify=0.0))
    muts.append(lambda c: c.update(policy='des'))
    muts.append(lambda c: c.update(dur=[1e-3, 1e-3]))
    muts.append(lambda c: c.update(speeds={}, main_speed=1.0, profile='uniform'))
    muts.append(lambda c: c.update(spawn=False))
    muts.append(lambda c: c['model'].update(pts=c['model']['pts'][:1]))
    muts.append(lambda c: c['model'].update(params=[]))
    muts.append(lambda c: c['model'].update(ns=[1, 1] if c['cache'] == '2D' else [2]))
    muts.append(lambda c: c.update(additional_gammas=[]))
    muts.append(lambda c: c.update(split_jobs=1, this_job_id=0))
    for i in range(len(best['cfg']['faults'])):
        muts.append(lambda c, i=i: c['faults'].pop(i) if len(c['faults']) > 1 and i < len(c['faults']) else False)
    tag = 0
    progress = True
    while progress and time.monotonic() - t0 < budget_s:
        progress = False
        for m in muts:
            tag += 1
            if time.monotonic() - t0 > budget_s:
                break
            before = json.dumps(best['cfg'], sort_keys=True)
            if attempt(m, tag=tag) and json.dumps(best['cfg'], sort_keys=True) != before:
                progress = True
        for key, lo in (('gamma_pts', 2), ('cpus', 1)):
            while (best['cfg'][key] or 0) > lo and time.monotonic() - t0 < budget_s:
                tag += 1
                cur = best['cfg'][key]
                if attempt(lambda c: c.update({key: cur - 1}), tag=tag):
                    progress = True
                else:
                    tag += 1
                    if cur // 2 >= lo and cur // 2 < cur - 1 and attempt(lambda c: c.update({key: cur // 2}), tag=tag):
                        progress = True
                    else:
                        break
    # 2. shorten the decision list (suffix falls back to default policy)
    dec = best['decisions']
    while dec and time.monotonic() - t0 < budget_s:
        half = dec[:len(dec) // 2]
        if fails(best['cfg'], half) is not None:
            dec = half
        else:
            break
    best['decisions'] = dec
    v, out = replay_sim(best)
    if v is None or v[0] != cls:
        return None
    return {'class': v[0], 'message': v[1], 'cfg': best['cfg'], 'decisions': best['decisions'], 'trace_digest': out['trace_digest']}


def loc_of(viol):
    """location signature used for known-findings and grouping"""
    if 'cfg' in viol:
        return viol['cfg']['cache']
    if 'merge' in viol:
        return 'merge'
    return 'quad'


def make_replay(viol, root, minimised, parent=None):
    rec = {'format': 1, 'property': PROP, 'engine': 'A', 'root_seed': root, 'minimised': minimised, 'parent': parent,
           'violation': {'class': viol['class'], 'message': viol['message'], 'location': loc_of(viol)}}
    if 'cfg' in viol:
        rec.update(kind='sim', cfg=viol['cfg'], decisions=viol['decisions'])
        rec['violation']['digest'] = H.digest([viol['class'], viol['trace_digest']])
    elif 'merge' in viol:
        rec.update(kind='merge', merge=viol['merge'])
        rec['violation']['digest'] = H.digest([viol['class'], viol['merge']])
    else:
        rec.update(kind='quad', quad=viol['quad'])
        rec['violation']['digest'] = H.digest([viol['class'], viol['quad']])
    return rec


def run_replay(rec):
    """-> (reproduced: bool, detail)"""
    want = rec['violation']
    if rec['kind'] == 'sim':
        v, out = replay_sim(rec)
        if v is None:
            return False, 'no violation'
        got = H.digest([v[0], out['trace_digest']])
        return (v[0] == want['class'] and got == want['digest']), '%s: %s (digest %s, recorded %s)' % (v[0], v[1], got, want['digest'])
    if rec['kind'] == 'merge':
        m = rec['merge']
        res = item_merge((m['root'], m['k'], m['rep']))
        for v in res['viols']:
            if v['class'] == want['class'] and H.digest([v['class'], v['merge']]) == want['digest']:
                return True, v['message']
        return False, 'no matching violation (%d others)' % len(res['viols'])
    if rec['kind'] == 'quad':
        qd = rec['quad']
        res = item_quad((qd['root'], qd['idx'], qd.get('real_frac', 0.0)))
        for v in res['viols']:
            if v['class'] == want['class']:
                return True, v['message']
        return False, 'no matching violation'
    raise H.HarnessFailure('unknown replay kind %r' % rec.get('kind'))


# ------------------------------------------------------------------------------------------------
# tiers

TIERS = {
    'quick': dict(sched=3200, fault=2600, enum=True, merge_k=[1, 2, 3, 4, 5, 6], merge_reps={1: 2, 2: 2, 3: 2, 4: 2, 5: 1, 6: 1},
                  quad=320, f5=160, real_frac=0.03, budget=420),
    'thorough': dict(sched=10 ** 9, fault=10 ** 9, enum=True, merge_k=[1, 2, 3, 4, 5, 6], merge_reps={1: 6, 2: 6, 3: 6, 4: 6, 5: 4, 6: 3},
                     quad=10 ** 9, f5=1500, real_frac=0.05, budget=1200),
}


def main(tier, root, budget_s=None, replay=None):
    T = H.Timer()
    if replay:
        rec = H.read_replay(replay)
        if rec.get('property') != PROP or rec.get('format') != 1:
            print('replay file does not belong to %s' % PROP)
            return 2
        ok, detail = run_replay(rec)
        print('replay %s: %s' % ('REPRODUCED' if ok else 'not reproduced', detail))
        if ok:
            print('VIOLATION property=%s replay=%s' % (PROP, replay))
            return 1
        return 0
    P = TIERS[tier]
    budget = float(budget_s or os.environ.get('VERIF_BUDGET_S') or P['budget'])
    t_end = time.monotonic() + budget
    viols = []
    agg = collections.Counter()
    sigs = {'all': set(), 'nontrivial': set(), 'scheds': set()}
    faults = collections.Counter()
    outcomes = collections.Counter()
    samples = []
    probes = collections.defaultdict(list)
    f5 = collections.Counter()
    simtime = [0.0]

    def on_run(i, r):
        if r is None:
            return
        agg['runs'] += 1
        agg['runs_' + r['phase']] += 1
        agg['steps'] += r['steps']
        simtime[0] += r['sim_time']
        sigs['all'].add(r['sig'])
        sigs['scheds'].add(r['sched_digest'])
        if (r['cpus'] or 2) > 1 and r['njobs'] > 1:
            sigs['nontrivial'].add(r['sig'])
        if r['real']:
            agg['real_model_runs'] += 1
        if r['nonfifo']:
            agg['runs_with_out_of_order_completion'] += 1
        if r['qdepth'] and r['stats'].get('put_blocked_on_full_queue'):
            agg['runs_with_producer_blocked_on_full_queue'] += 1
        if r['split'] > 1:
            agg['split_job_runs'] += 1
        agg['policy_' + r.get('policy', 'des')] += 1
        for f in r['fired']:
            faults['%s:%s' % (f['kind'], f.get('exc'))] += 1
        for k, v in r['stats'].items():
            agg['stat_' + k] += v
        outcomes['%s/%s%s' % (r['phase'], r['outcome'], ':' + r['exc_type'] if r.get('exc_type') else '')] += 1
        if 'sample' in r and len(samples) < 4:
            samples.append(r['sample'])
        if 'viol' in r:
            viols.append(r['viol'])
        if 'f5' in r:
            f5['%s -> %s%s' % (r['f5']['fault'], r['f5']['outcome'],
                               ' with the lost entries missing (split job: reported by merge)' if r['f5']['absorbed'] and r['f5']['split'] else
                               ' (absorbed)' if r['f5']['absorbed'] else '')] += 1

    def frac(a, b):
        return time.monotonic() + (t_end - time.monotonic()) * a / b

    # phase order: cheap exhaustive parts first, time-boxed sampling after
    # --- merge enumeration
    items = [(root, k, rep) for k in P['merge_k'] for rep in range(P['merge_reps'][k])]
    mres = H.fan_out(item_merge, items, item_timeout=600)
    merge_cases = 0
    for r in mres:
        if r is None:
            continue
        merge_cases += r['cases']
        agg['merge_patterns'] += r['patterns']
        agg['merge_conflict_cases'] += r['conflicts']
        agg['merge_mixed_split_cases'] += r.get('mixed', 0)
        viols.extend(r['viols'])
        if 'sample' in r and r['k'] in (3,):
            samples.append({'merge': r['sample']})
    # --- enumerated single-job faults
    if P['enum']:
        n = len(enum_space())
        H.fan_out(item_run, [(root, 'enum', i, 0.0) for i in range(n)], item_timeout=300, on_result=on_run)
    # --- sampled phases (each gets a share of the remaining budget)
    nq = P['quad']
    qres = H.fan_out(item_quad, [(root, i, P['real_frac']) for i in range(min(nq, 10 ** 6))], item_timeout=600,
                     deadline=frac(0.35, 1.0) if tier == 'thorough' else None)
    for r in qres:
        if r is None:
            continue
        agg['quad_cases'] += 1
        for c in r['clauses']:
            agg['quad_clause_' + c] += 1
        for k, v in r['probes'].items():
            if v is not None:
                probes[k].append(v)
        viols.extend(r['viols'])
        if 'sample' in r:
            samples.append({'quadrature': r['sample']})
    H.fan_out(item_run, [(root, 'f5', i, 0.0) for i in range(P['f5'])], item_timeout=300, on_result=on_run)
    for phase, share in (('sched', 0.5), ('fault', 1.0)):
        n = P[phase]
        H.fan_out(item_run, [(root, phase, i, P['real_frac']) for i in range(min(n, 3 * 10 ** 6))], item_timeout=300,
                  on_result=on_run, deadline=frac(share, 1.0) if tier == 'thorough' else None)

    # ---------------------------------------------------------------------------------------------
    known = H.load_known(PROP)
    reported = 0
    seen = set()
    printed_known = set()
    by_class = collections.Counter()
    for v in viols:
        key = '%s@%s' % (v['class'], loc_of(v))
        by_class[key] += 1
        if key in known:
            if key not in printed_known:
                printed_known.add(key)
                print('KNOWN-FINDING: property=%s %s :: %s' % (PROP, key, known[key]))
            continue
        if key in seen:
            continue
        seen.add(key)
        raw = make_replay(v, root, False)
        rawpath = H.write_replay(PROP, '%d-%s-raw' % (root, H.digest(key)), raw)
        final, path = raw, rawpath
        if 'cfg' in v:
            mv = minimise_sim(v)
            if mv is not None:
                final = make_replay(mv, root, True, parent=rawpath)
                path = H.write_replay(PROP, '%d-%s-min' % (root, H.digest(key)), final)
        ok1, d1 = run_replay(final)
        ok2, d2 = run_replay(final)
        if not (ok1 and ok2):
            # fall back to the unminimised trace
            ok1, d1 = run_replay(raw)
            ok2, d2 = run_replay(raw)
            path = rawpath
            if not (ok1 and ok2):
                print('HARNESS: violation %s did not replay deterministically (%s / %s)' % (key, d1, d2))
                return 2
        reported += 1
        print('violation class=%s: %s' % (v['class'], v['message'][:400]))
        print('VIOLATION property=%s replay=%s' % (PROP, path))

    wall = T()
    runs = agg['runs']
    cov = {
        'evaluations': int(runs + merge_cases + agg['quad_cases']),
        'distinct_nontrivial': int(len(sigs['nontrivial'])),
        'rule': 'one evaluation = one simulated cache build (seeded schedule + fault plan), one merge case, or one quadrature case; '
                'distinct_nontrivial counts distinct (job->worker assignment, result-append order) signatures among builds with >=2 workers and >=2 jobs '
                '(a build with one worker or one job has a single possible schedule and is trivial)',
        'samples': samples[:8],
        'simulated_runs': int(runs),
        'runs_per_hour': int(runs / max(wall, 1e-9) * 3600),
        'simulated_time_s': simtime[0],
        'scheduler_steps': int(agg['steps']),
        'distinct_full_schedules': len(sigs['scheds']),
        'distinct_assignment_signatures_all': len(sigs['all']),
        'phases': {k[5:]: v for k, v in agg.items() if k.startswith('runs_')},
        'fault_kinds_fired': dict(faults),
        'outcomes': dict(outcomes),
        'merge': {'cases': int(merge_cases), 'patterns_enumerated': int(agg['merge_patterns']), 'conflict_cases': int(agg['merge_conflict_cases']), 'mixed_split_setting_cases': int(agg['merge_mixed_split_cases']),
                  'exhaustive_over': 'all 3^k absent/once/twice patterns for k in %s (minus the empty list), per generated grid' % P['merge_k']},
        'enumerated_single_job_faults': len(enum_space()) if P['enum'] else 0,
        'quadrature': {'cases': int(agg['quad_cases']), 'clauses': {k[12:]: v for k, v in agg.items() if k.startswith('quad_clause_')},
                       'max_deviation_over_tolerance': {k: float(np.max(v)) for k, v in probes.items() if k.split('/')[0] in
                                                        ('int1', 'int1_noext', 'pp1', 'pp1_uncached', 'int2', 'int2_noext', 'pp2', 'spp2', 'mix', 'mix_spp', 'mix_pp', 'vourlaki')},
                       'probe_tail_mass_1d_median': float(np.median(probes['tail_mass_1d'])) if probes['tail_mass_1d'] else None,
                       'probe_edge_mass_2d_median': float(np.median(probes['edge_mass_2d'])) if probes['edge_mass_2d'] else None,
                       'probe_corner_mass_2d_median': float(np.median(probes['corner_mass_2d'])) if probes['corner_mass_2d'] else None,
                       'probe_quad_vs_closed_form_1d_max': float(np.max(probes['quad_vs_closed_1d'])) if probes['quad_vs_closed_1d'] else None},
        'probes': {k[5:]: v for k, v in agg.items() if k.startswith('stat_')} | {
            'runs_with_out_of_order_completion': agg['runs_with_out_of_order_completion'],
            'runs_with_producer_blocked_on_full_queue': agg['runs_with_producer_blocked_on_full_queue'],
            'split_job_runs': agg['split_job_runs'], 'real_model_runs': agg['real_model_runs'],
            'scheduling_policy_runs': {'discrete_event_time_order_with_buggify': agg['policy_des'], 'pct_priorities': agg['policy_pct']}},
        'f5_dead_worker_outcomes': dict(f5),
        'real_vs_stub': {'real': ['dadi.DFE.Cache1D/Cache2D (constructor, _single_process, _multiple_processes, _worker_sfs, merge, integrate*, mixture*)',
                                  'DFE.Vourlaki_mixture', 'DFE.PDFs (compiled, rebuilt from the tree)', 'Numerics.make_extrap_func', 'Spectrum + its pickler',
                                  'DFE.DemogSelModels in %d runs' % agg['real_model_runs']],
                         'stub': ['multiprocessing.Manager/Queue/list/Process/cpu_count (dsim.mp)', 'demography+selection model in the other runs']},
        'violation_classes': dict(by_class),
        'exhaustive': False,
    }
    H.write_evidence(PROP, tier, root, cov, wall, reported, ASSUMPTIONS)
    print('%s %s: %d simulated builds (%d distinct non-trivial interleavings), %d merge cases, %d quadrature cases, %d violations, %.1fs'
          % (PROP, tier, runs, len(sigs['nontrivial']), merge_cases, agg['quad_cases'], reported, wall))
    return 1 if reported else 0
