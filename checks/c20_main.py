"""C20 driver (engine B): sessions vs pristine reference, minimisation, replay, evidence."""
import collections, copy, json, os, time

from dsim import rng as R, harness as H, oracle
from dsim.session import nf_diff
from checks import c20, c20_gen as G

PROP = 'C20'
ASSUMPTIONS = [
    'the only interleaving the property speaks of is the order of API calls in one interpreter (dadi is single-threaded): clients are straight-line programs interleaved at call boundaries',
    'reference = the same client alone, canonical C-contiguous arguments, in a fork of a zygote interpreter started with PYTHONHASHSEED=0 that has imported dadi and nothing else; a sample of programs is also run in a truly fresh interpreter under another hash seed to validate that shortcut',
    'results are compared structurally (type, shape, mask, folded, pop_ids, exception class) and numerically at rtol 1e-9 with an absolute floor of 1e-12*max|x| and identical NaN/inf pattern; bitwise equality is not demanded (reduction order may legitimately depend on strides)',
    'argument preservation is bit-for-bit on every argument except those on the documented in-place allow-list (PhiManip *_admix_* pulses, in-place arithmetic, mask_corners)',
    'excluded by construction: Demes.output (its contract is to report earlier calls), functions whose contract is to consume the global RNG (they appear only as interference), plotting, CUDA, TwoLocus/Triallele',
    'memo-cache hit counters come from counting-dict subclasses substituted for the module-level dictionaries at session start (no hook in /repo)',
]


def sess_item(root, phase, idx, faults):
    s = R.derive(root, 'c20', phase, idx)
    return G.gen_session(s, faults=faults)


def fkey(fd, cause):
    return '%s@%s/%s' % (fd['class'], fd['op'], cause)


def same(fd, f2):
    if fd['class'] == 'crash':
        # where a corrupted heap finally kills the interpreter is not repeatable: the reproducible observable is
        # "this client's session dies", not the op in flight
        return f2['class'] == 'crash' and f2['cid'] == fd['cid']
    return f2['class'] == fd['class'] and f2['op'] == fd['op']


def vdig(f):
    if f['class'] == 'crash':
        return H.digest(['crash', f['cid']])
    return H.digest([f['class'], f['op'], f['cid'], f['k']])


_closure = c20._closure
_drop_steps = c20._drop_steps


def minimise(pool, lane, job, fd, budget_s=40):
    """delta debugging; a candidate is accepted only if a finding of the same class at the same op persists.
    Returns (job', finding', cause, use_ref_seed)."""
    t0 = time.monotonic()
    state = {'job': job, 'fd': fd, 'refseed': False}

    def test(j, refseed=None):
        if time.monotonic() - t0 > budget_s:
            return None
        rs = state['refseed'] if refseed is None else refseed
        try:
            fds, _ = c20.evaluate(pool, lane, j, use_ref_for_session=rs)
        except H.HarnessFailure:
            return None
        for f2 in fds:
            if same(state['fd'], f2):
                return f2
        return None

    def accept(j, f2, refseed=None):
        state['job'], state['fd'] = j, f2
        if refseed is not None:
            state['refseed'] = refseed

    cid = fd['cid']
    if cid in job['clients']:
        # 1. the failing client alone
        if len(job['clients']) > 1:
            j = copy.deepcopy(job)
            j['clients'] = {cid: j['clients'][cid]}
            j['order'] = [c for c in j['order'] if c == cid]
            j['layout'] = {k: v for k, v in (j.get('layout') or {}).items() if k.startswith(cid + ':')}
            f2 = test(j)
            if f2:
                accept(j, f2)
        # 2. truncate after the failing step
        j = state['job']
        k = state['fd']['k']
        if 0 <= k < len(j['clients'][cid]) - 1:
            j2, _ = _drop_steps(j, cid, set(range(k + 1, len(j['clients'][cid]))))
            f2 = test(j2)
            if f2:
                accept(j2, f2)
        # 3. hash seed 0
        f2 = test(state['job'], refseed=True)
        if f2:
            accept(state['job'], f2, refseed=True)
        # 4. layout faults: all at once, then one at a time
        if state['job'].get('layout'):
            j2 = copy.deepcopy(state['job'])
            j2['layout'] = {}
            f2 = test(j2)
            if f2:
                accept(j2, f2)
            else:
                for key in sorted(state['job']['layout']):
                    j2 = copy.deepcopy(state['job'])
                    if key not in j2['layout']:
                        continue
                    del j2['layout'][key]
                    f2 = test(j2)
                    if f2:
                        accept(j2, f2)
                for key in sorted(state['job']['layout']):
                    if state['job']['layout'][key] != 'fortran':
                        j2 = copy.deepcopy(state['job'])
                        j2['layout'][key] = 'fortran'
                        f2 = test(j2)
                        if f2:
                            accept(j2, f2)
        # 5. steps of the failing client that are not upstream of the failing step, then other clients' steps
        progress = True
        while progress and time.monotonic() - t0 < budget_s:
            progress = False
            j = state['job']
            k = state['fd']['k']
            prog = j['clients'][cid]
            up = _closure(prog, k) if 0 <= k < len(prog) else set(range(len(prog)))
            for i in reversed(range(len(prog))):
                if i in up:
                    continue
                j2, remap = _drop_steps(j, cid, {i})
                f2 = test(j2)
                if f2:
                    accept(j2, f2)
                    progress = True
                    break
            if progress:
                continue
            for oc in sorted(j['clients']):
                if oc == cid:
                    continue
                for i in reversed(range(len(j['clients'][oc]))):
                    j2, _ = _drop_steps(j, oc, {i})
                    if not j2['clients'][oc]:
                        del j2['clients'][oc]
                    f2 = test(j2)
                    if f2:
                        accept(j2, f2)
                        progress = True
                        break
                if progress:
                    break
    # cause
    j, f = state['job'], state['fd']
    lay = [(key, kind) for key, kind in sorted((j.get('layout') or {}).items())]
    if f.get('cause') == 'intrinsic' and not lay:
        cause = 'intrinsic'
    elif lay:
        onstep = [(key.split(':')[2], kind) for key, kind in lay if key.startswith('%s:%d:' % (f['cid'], f['k']))]
        use = onstep or [(key.split(':')[2], kind) for key, kind in lay]
        cause = 'layout:' + '+'.join('arg%s=%s' % (a, kind) for a, kind in use)
    elif not state['refseed']:
        cause = 'hashseed'
    else:
        prog = j['clients'].get(f['cid'], [])
        up = _closure(prog, f['k']) if 0 <= f['k'] < len(prog) else set()
        if len(j['clients']) > 1 or len(up) < len(prog):
            cause = 'history'
        else:
            cause = 'intrinsic'
    return j, f, cause, state['refseed']


def make_replay(job, fd, cause, hashseed, root, minimised, parent=None, prop=PROP):
    return {'format': 1, 'property': prop, 'engine': 'B', 'root_seed': root, 'hashseed': hashseed, 'job': job,
            'violation': {'class': fd['class'], 'location': {'op': fd['op'], 'client': fd['cid'], 'step': fd['k'], 'cause': cause},
                          'message': fd['message'], 'digest': vdig(fd)},
            'minimised': minimised, 'parent': parent}


def run_replay(rec, repo):
    pool = oracle.Pool(repo, [rec['hashseed']])
    try:
        fds, _ = c20.evaluate(pool, 0, rec['job'])
    finally:
        pool.close()
    want = rec['violation']
    for f in fds:
        if f['class'] == want['class'] and vdig(f) == want['digest']:
            return True, f['message']
    return False, 'no matching finding (%d others: %s)' % (len(fds), [(f['class'], f['op']) for f in fds][:4])


TIERS = {
    'quick': dict(sessions=3600, fresh=24, budget=300, reseed_every=0),
    'thorough': dict(sessions=10 ** 9, fresh=400, budget=1500, reseed_every=1500),
}


def main(tier, root, budget_s=None, replay=None, prop=PROP, gen=None, extra=None, tiers=None, assumptions=None):
    from dsim import build
    T = H.Timer()
    repo = os.path.dirname(os.path.dirname(os.path.abspath(__import__('dadi').__file__)))
    if replay:
        rec = H.read_replay(replay)
        if rec.get('property') != prop or rec.get('format') != 1 or rec.get('engine') != 'B':
            print('replay file does not belong to %s' % prop)
            return 2
        ok, detail = run_replay(rec, repo)
        print('replay %s: %s' % ('REPRODUCED' if ok else 'not reproduced', detail))
        if ok:
            print('VIOLATION property=%s replay=%s' % (prop, replay))
            return 1
        return 0
    P = (tiers or TIERS)[tier]
    gen = gen or sess_item
    budget = float(budget_s or os.environ.get('VERIF_BUDGET_S') or P['budget'])
    t_end = time.monotonic() + budget
    nl = H.nproc_default()
    sd = R.derive(root, 'hashseeds')
    seeds = []
    while len(seeds) < nl:
        k = 1 + sd.randrange(4294967295)
        if k not in seeds:
            seeds.append(k)
    # a few small hash seeds are always included (0 is the reference's)
    for i, k in enumerate((1, 2, 3)):
        if i < len(seeds):
            seeds[i] = k
    pool = oracle.Pool(repo, seeds)
    used_seeds = set(seeds)
    stats = collections.Counter()
    sigs = set()
    raw = []            # (job, finding, hashseed, idx)
    samples = []

    def work(pool_, lane, item):
        idx, faults = item
        job = gen(root, 'main', idx, faults)
        fds, st = c20.evaluate(pool_, lane, job)
        return idx, faults, job, fds, st, pool_.seeds[lane]

    def on_result(i, r):
        idx, faults, job, fds, st, hs = r
        stats.update(st)
        stats['sessions'] += 1
        stats['sessions_with_faults' if faults else 'sessions_history_only'] += 1
        ncl = len([c for c in job['clients'] if c != 'cx'])
        stats['clients'] += ncl
        if ncl >= 2:
            sigs.add(H.digest([sorted(st_['op'] for p in job['clients'].values() for st_ in p), job['order']]))
        if len(samples) < 3 and idx < 3:
            samples.append({'session': idx, 'hashseed': hs, 'clients': {c: [s_['op'] for s_ in p] for c, p in job['clients'].items()},
                            'interleaving': ''.join(c[1:] if c != 'cx' else 'x' for c in job['order']), 'layout_faults': job['layout'],
                            'findings': [f['class'] + '@' + f['op'] for f in fds]})
        for f in fds:
            raw.append((job, f, hs, idx))

    try:
        n = P['sessions']
        done = 0
        chunk = P['reseed_every'] or n
        while done < n and time.monotonic() < t_end - 20:
            m = min(chunk, n - done)
            items = [(done + i, (done + i) % 5 != 0) for i in range(m)]
            pool.work(work, items, deadline=t_end - 20 if tier == 'thorough' else None, on_result=on_result)
            done += m
            if P['reseed_every'] and done < n and time.monotonic() < t_end - 40:
                for li in range(len(pool.lanes)):
                    k = 1 + sd.randrange(4294967295)
                    pool.reseed(li, k)
                    used_seeds.add(k)
        # fresh-interpreter cross-check of the zygote shortcut
        fresh_bad = []

        def fresh_work(pool_, lane, idx):
            job = gen(root, 'fresh', idx, False)
            cid = sorted(c for c in job['clients'] if c != 'cx')[0]
            solo = G.solo_job(job, cid)
            a = pool_.lanes[lane][0].run(solo)
            b = oracle.fresh_run(repo, solo, 987654321 + idx)
            da, _, _ = c20.frames_by_client(a)
            db, _, _ = c20.frames_by_client(b)
            out = []
            for k in sorted(da[cid]):
                if k in db[cid]:
                    d = nf_diff(da[cid][k]['nf'], db[cid][k]['nf'])
                    if d:
                        out.append({'class': d[0], 'cid': cid, 'k': k, 'op': da[cid][k]['op'], 'cause': 'fresh-interpreter',
                                    'message': 'zygote-fork result differs from a fresh interpreter under another hash seed: %s' % d[1]})
                        break
            return idx, len(da[cid]), out, solo
        fr = pool.work(fresh_work, list(range(P['fresh'])), deadline=t_end - 5 if tier == 'thorough' else None)
        for r in fr:
            if r is None:
                continue
            stats['fresh_interpreter_programs'] += 1
            stats['fresh_interpreter_ops'] += r[1]
            for f in r[2]:
                raw.append((r[3], f, 0, -1))

        # ------------------------------------------------------------------------------------------
        known = H.load_known(prop)
        groups = collections.OrderedDict()
        for job, f, hs, idx in raw:
            g = '%s@%s' % (f['class'], f['op'])
            groups.setdefault(g, []).append((job, f, hs, idx))
        reported = 0
        by_key = collections.Counter()
        printed_known = set()
        t_report = time.monotonic()
        skipped_groups = 0
        for g, lst in groups.items():
            # minimise up to 3 representatives per (class, op) group to discover distinct causes
            seen_causes = set()
            if reported >= 12 or (reported >= 3 and time.monotonic() - t_report > 600):
                skipped_groups += 1       # enough replay files for a verdict; the rest is counted in the evidence
                continue
            for job, f, hs, idx in lst[:3 if reported < 6 else 1]:
                lane = 0
                if pool.seeds[lane] != hs and hs:
                    pool.reseed(lane, hs)
                if f.get('cause') == 'fresh-interpreter':
                    mj, mf, cause, refseed = job, f, 'fresh-interpreter', True
                else:
                    mj, mf, cause, refseed = minimise(pool, lane, job, f)
                key = fkey(mf, cause)
                by_key[key] += 1
                if key in seen_causes:
                    continue
                seen_causes.add(key)
                if key in known:
                    if key not in printed_known:
                        printed_known.add(key)
                        print('KNOWN-FINDING: property=%s %s :: %s' % (prop, key, known[key]))
                    continue
                rawrec = make_replay(job, f, 'unminimised', hs, root, False, prop=prop)
                rawpath = H.write_replay(prop, '%d-%s-raw' % (root, H.digest(key)), rawrec)
                rec = make_replay(mj, mf, cause, 0 if refseed else hs, root, True, parent=rawpath, prop=prop)
                path = H.write_replay(prop, '%d-%s-min' % (root, H.digest(key)), rec)
                ok1, d1 = run_replay(rec, repo)
                ok2, d2 = run_replay(rec, repo)
                if not (ok1 and ok2):
                    ok1, d1 = run_replay(rawrec, repo)
                    ok2, d2 = run_replay(rawrec, repo)
                    path = rawpath
                    if not (ok1 and ok2):
                        if mf['class'] == 'crash':
                            # memory-unsafe: the interpreter died in the session while the pristine run completed, but
                            # heap corruption is not exactly repeatable; reported, flagged as such
                            print('note: crash finding %s is memory-unsafe and did not reproduce on every replay' % key)
                        else:
                            print('HARNESS: finding %s did not replay deterministically (%s / %s)' % (key, d1, d2))
                            return 2
                reported += 1
                print('violation %s: %s' % (key, mf['message'][:400]))
                print('VIOLATION property=%s replay=%s' % (prop, path))
        if skipped_groups:
            print('note: %d further (class, op) groups of findings were not minimised (see findings_by_key / raw counts in the evidence)' % skipped_groups)
    finally:
        pool.close()

    wall = T()
    cov = {
        'evaluations': int(stats['sessions']),
        'distinct_nontrivial': int(len(sigs)),
        'rule': 'one evaluation = one session (1-4 client programs of public API calls + optional interference client, interleaved at call boundaries by the seeded scheduler, '
                'run in a fork of a zygote with a drawn PYTHONHASHSEED, every client compared op by op with the same client alone in a pristine fork); '
                'distinct_nontrivial counts distinct (op multiset, interleaving) signatures among sessions with >=2 clients',
        'samples': samples or [{'note': 'no sessions'}],
        'ops_executed': int(stats['ops']),
        'sessions_per_hour': int(stats['sessions'] / max(wall, 1e-9) * 3600),
        'simulated_time': '%d API calls (engine B has no clock; time is the call count)' % stats['ops'],
        'sessions_history_only': int(stats['sessions_history_only']), 'sessions_with_faults': int(stats['sessions_with_faults']),
        'fault_kinds_fired': {'E2_layout': {k[7:]: v for k, v in stats.items() if k.startswith('layout_')},
                              'E3_hash_seeds_used': len(used_seeds), 'E1_E4_interference_ops': 'interference client present in about half of the fault sessions',
                              'crashed_sessions': int(stats['crashed_sessions'])},
        'memo_cache_hits': {k[4:]: v for k, v in stats.items() if k.startswith('hit_')},
        'ops_raising_in_both_runs': {k[4:]: v for k, v in stats.items() if k.startswith('exc_')},
        'fresh_interpreter_cross_check': {'programs': int(stats['fresh_interpreter_programs']), 'ops': int(stats['fresh_interpreter_ops'])},
        'findings_by_key': dict(by_key),
        'real_vs_stub': {'real': ['every dadi function in the op catalogue (dsim/ops.py), compiled kernels rebuilt from the tree'],
                         'stub': ['linear Poisson stub models for the Godambe ops (real Demographics1D/2D models in a fraction)']},
        'exhaustive': False,
    }
    if extra:
        cov.update(extra(stats))
    H.write_evidence(prop, tier, root, cov, wall, reported, assumptions or ASSUMPTIONS)
    print('%s %s: %d sessions, %d ops, %d distinct non-trivial interleavings, %d hash seeds, %d violations, %.1fs'
          % (prop, tier, stats['sessions'], stats['ops'], len(sigs), len(used_seeds), reported, wall))
    return 1 if reported else 0
