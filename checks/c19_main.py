"""C19 driver: Godambe-focused sessions on engine B.  Clients mix plain Godambe calls (history pressure on the
module-level spectrum cache: several model closures evaluated at identical (params, ns, pts), nested
parameters sharing values across different p0, address-reuse churn) with oracle ops that compare dadi with
exact stencil values, closed forms for linear Poisson models, bootstrap permutations and the chi-square
mixture."""
from dsim import rng as R
from checks import c20_main, c20_gen as G

PROP = 'C19'
ASSUMPTIONS = [
    'history clause: every op equals the same op of the same client alone in a pristine fork (bit-for-bit up to rtol 1e-9); programs containing Godambe calls get no layout faults (finite differences amplify legitimate rounding differences without bound)',
    'stencil clause: get_hess on random quadratics, get_grad on functions quadratic in centrally-differenced and linear in one-sided coordinates; tolerance 64*eps_mach*max|f|/(h_i*h_j) (round-off of the difference quotient)',
    'closed-form clause: Poisson models linear in their parameters (affine B0 + sum p_k B_k when multinom=True, because a purely linear model times a free theta is not identifiable); dadi evaluated at eps, 2*eps, 4*eps; '
    '|R(eps) - closed| <= 2*max(|R(2eps)-R(eps)|, |R(4eps)-R(2eps)|/2) + 1e-12/eps^2*(1+cond H+cond J)*scale (Richardson a-posteriori bound: valid for any consistent stencil of order >= 1); '
    'where every differentiated parameter uses the central stencil and eps <= 0.01 the error must also shrink by more than 1/0.45 when eps is halved (second order); cases with cond > 1e6 are skipped and counted',
    'permutation clause: tolerance 1e-13*(1+cond H+cond J)^2*scale',
    'sum_chi2_ppf is compared with scipy.stats.chi2.sf mixtures for x > 0',
]


def g_stencil(s, P):
    for _ in range(s.randint(2, 6)):
        k = s.randint(1, 5)
        eps = s.choice([1e-4, 3e-4, 1e-3, 1e-2, 3e-2, 1e-1]) if s.chance(0.7) else s.loguniform(1e-4, 1e-1)
        zmask = [s.choice([0, 0, 0, 1, 2, 3]) for _ in range(k)]
        op = s.choice(['C19.stencil_hess', 'C19.stencil_grad', 'C19.stencil_cubic'])
        cont = s.choice(['list', 'tuple', 'array', 'array', 'intlist', 'intarray'])
        if op == 'C19.stencil_grad' and s.chance(0.25):
            P.add(op, s.randint(0, 50), k, eps, zmask, cont, True)
        else:
            P.add(op, s.randint(0, 50), k, eps, zmask, cont)
    return P


def _case(s, fn):
    k = s.choice([1, 2, 2, 3, 3, 4, 5]) if fn in ('FIM', 'GIM') else s.choice([2, 3, 3, 4])
    ns = s.choice([[8], [10], [12], [4, 3], [5, 4]])
    seed = s.choice([0, 1])
    multinom = s.chance(0.5)
    p0 = [s.choice([0.5, 1.0, 2.0, 3.0]) for _ in range(k)]
    eps = s.choice([0.01, 0.01, 0.003, 0.001, 0.03])
    nboot = k + 2 + s.choice([1, 3, 8, 12, 16])      # few bootstraps: J barely invertible (skipped as ill-conditioned); many: judged
    return k, ns, seed, multinom, p0, eps, nboot


def g_closed(s, P):
    for _ in range(s.randint(1, 3)):
        fn = s.choice(['FIM', 'GIM', 'GIM', 'LRT', 'Wald', 'score'])
        k, ns, seed, multinom, p0, eps, nboot = _case(s, fn)
        kw = {}
        if fn in ('FIM', 'GIM'):
            kw['log'] = s.chance(0.3)
            if kw['log'] and s.chance(0.3):
                # parameters close to 1 (log close to 0) with the smallest step sizes the property names
                p0 = [s.choice([1.05, 1.1, 0.93, 2.0]) for _ in range(k)]
                eps = s.choice([1e-4, 3e-4])
            if fn == 'GIM' and not multinom and s.chance(0.3):
                kw['adjusts'] = [s.choice([0.8, 1.0, 1.25]) for _ in range(nboot)]
        else:
            nested = sorted(s.sample(list(range(k)), s.randint(1, k - 1)))
            if s.chance(0.35):
                s.shuffle(nested)           # any order of the nested indices is legal
            kw['nested'] = nested
            full = list(p0)
            for i in nested:
                p0[i] = s.choice([0.0, 0.0, 1.0])
            if fn == 'Wald':
                kw['full'] = full if s.chance(0.5) else [full[i] for i in nested]
            if fn == 'LRT' and not multinom and s.chance(0.3):
                kw['adjusts'] = [s.choice([0.8, 1.0, 1.25]) for _ in range(nboot)]
        if s.chance(0.3) and fn != 'FIM':
            perm = list(range(nboot))
            s.shuffle(perm)
            kw['perm'] = perm
        if s.chance(0.4):
            kw['pts'] = s.choice([[12], [10, 12]])
        if s.chance(0.15):
            # parameters of very different magnitude (an explicit theta-like weight of 1e4 next to weights of order 1):
            # same information content after rescaling, badly scaled matrices
            j = s.randrange(k)
            sc = [1.0] * k
            sc[j] = s.choice([1e-4, 1e-5, 1e4])
            kw['scales'] = sc
            p0[j] = p0[j] / sc[j] if p0[j] != 0 else 0.0
        if kw.get('adjusts') and s.chance(0.4):
            kw['acont'] = 'tuple'
        if s.chance(0.4):
            kw['pcont'] = s.choice(['array', 'tuple', 'intlist'] if all(float(v).is_integer() for v in p0) else ['array', 'tuple'])
        if s.chance(0.25):
            kw['dmask'] = s.choice([1, 2])
        if fn != 'FIM' and s.chance(0.3):
            kw['bcont'] = s.choice(['array', 'tuple'])
        if fn != 'FIM' and s.chance(0.15):
            kw['zboot'] = 1           # one replicate without any SNP
        if s.chance(0.12) and kw.get('bcont') != 'array':
            kw['fold'] = True         # folded data and bootstraps: the likelihood folds the model
        P.add('C19.closed_form', fn, k, seed, ns, p0, multinom, eps, s.randint(0, 3), nboot, **kw)
    return P


def g_perm(s, P):
    fn = s.choice(['GIM', 'LRT', 'Wald', 'score'])
    k, ns, seed, multinom, p0, eps, nboot = _case(s, fn)
    kw = {}
    if fn != 'GIM':
        nested = sorted(s.sample(list(range(k)), s.randint(1, k - 1)))
        kw['nested'] = nested
        full = list(p0)
        for i in nested:
            p0[i] = s.choice([0.0, 1.0])
        if fn == 'Wald':
            kw['full'] = full
    perm = list(range(nboot))
    s.shuffle(perm)
    P.add('C19.perm', fn, k, seed, ns, p0, multinom, eps, s.randint(0, 3), nboot, perm, **kw)
    return P


def g_chi2(s, P):
    for _ in range(s.randint(1, 3)):
        w = s.choice([[0, 1], [0.5, 0.5], [0.25, 0.5, 0.25], [0.125, 0.375, 0.375, 0.125], [0.5, 0.6], [1.0, 0.0],
                      [0, 0, 1], [0.5, 0, 0.5], [0, 0.5, 0, 0.5], [0.3, 0, 0, 0.7], [0.25, 0.25, 0.5, 0]])
        xs = [s.loguniform(1e-3, 30) if s.chance(0.85) else -s.loguniform(1e-3, 3) for _ in range(s.randint(1, 4))]
        P.add('C19.chi2', xs, w, s.choice(['scalar', 'array', 'list', 'int', 'intlist', 'intarray']))
    return P


def g_collide(s, P):
    """E5: consecutive calls that agree in everything a too-coarse cache key might look at (model function, p0, eps)
    and differ in one thing: grid setting, sample sizes, data seed, bootstraps, theta adjustments, nested set"""
    fn = s.choice(['FIM', 'GIM', 'GIM', 'LRT', 'score', 'Wald'])
    k, ns, seed, multinom, p0, eps, nboot = _case(s, fn)
    base = dict(pts=[10], ns=ns, dseed=1, nboot=nboot, adjusts=None)
    kw0 = {}
    if fn not in ('FIM', 'GIM'):
        nested = sorted(s.sample(list(range(k)), s.randint(1, k - 1)))
        kw0['nested'] = nested
        full = list(p0)
        for i in nested:
            p0[i] = s.choice([0.0, 1.0])
        if fn == 'Wald':
            kw0['full'] = full
    variants = [dict(base)]
    for _ in range(s.randint(1, 3)):
        v = dict(base)
        what = s.choice(['pts', 'ns', 'dseed', 'nboot', 'adjusts', 'p0', 'p0', 'fold'])
        if what == 'pts':
            v['pts'] = s.choice([[12], [10, 12], [14]])
        elif what == 'ns':
            v['ns'] = s.choice([x for x in ([8], [10], [12], [4, 3], [5, 4]) if x != ns])
        elif what == 'dseed':
            v['dseed'] = s.choice([0, 2, 3])
        elif what == 'nboot':
            v['nboot'] = nboot + s.randint(1, 3)
        elif what == 'fold':
            v['fold'] = True
        elif what == 'p0':
            # same nested values, different values elsewhere (what a key built from the nested parameters alone cannot tell apart)
            q = list(p0)
            free = [i for i in range(k) if i not in kw0.get('nested', [])]
            if free:
                i = s.choice(free)
                q[i] = s.choice([x for x in (0.5, 1.0, 2.0) if x != q[i]])
            v['p0'] = q
        elif fn in ('GIM', 'LRT') and not multinom:
            v['adjusts'] = [s.choice([0.8, 1.25]) for _ in range(nboot)]
        variants.append(v)
    s.shuffle(variants)
    for v in variants:
        kw = dict(kw0)
        kw['pts'] = v['pts']
        if v['adjusts']:
            kw['adjusts'] = v['adjusts'][:v['nboot']] + [1.0] * max(0, v['nboot'] - len(v['adjusts']))
        if s.chance(0.3):
            kw['pcont'] = 'array'
        if v.get('fold'):
            kw['fold'] = True
        P.add('C19.closed_form', fn, k, seed, v['ns'], list(v.get('p0', p0)), multinom, eps, v['dseed'], v['nboot'], **kw)
    return P


TABLE = [(g_collide, 8), (G.g_godambe_neg, 3), (g_stencil, 5), (g_closed, 12), (g_perm, 4), (g_chi2, 2), (G.g_godambe, 8), (G.g_godambe_real, 2), (G.g_spectrum, 1), (G.g_extrap, 1)]


def gen(root, phase, idx, faults):
    s = R.derive(root, 'c19', phase, idx)
    return G.gen_session(s, faults=faults, table=TABLE, max_ops=30)


TIERS = {
    'quick': dict(sessions=1400, fresh=12, budget=300, reseed_every=0),
    'thorough': dict(sessions=10 ** 9, fresh=200, budget=1500, reseed_every=1500),
}


def extra(stats):
    return {'oracle_ops': {k[7:]: v for k, v in stats.items() if k.startswith('oracle_')},
            'clauses_without_history': 'stencil, closed-form, permutation and chi-square oracle ops contain no history; they ride in the sessions (sharing Godambe.cache and the allocator with the other calls) and are counted separately here'}


def main(tier, root, budget_s=None, replay=None):
    return c20_main.main(tier, root, budget_s=budget_s, replay=replay, prop=PROP, gen=gen, extra=extra, tiers=TIERS, assumptions=ASSUMPTIONS)
