"""C20 (and the history clause of C19): evaluate one session against the pristine reference."""
import collections
from dsim import session as SE, harness as H
from checks import c20_gen as G


def _plain(n):
    t = n[0]
    if t in ('v', 'i', 'f', 'o', 'c'):
        return n[1]
    if t == 'l':
        return [_plain(x) for x in n[1]]
    if t == 'd':
        return {k.strip("'"): _plain(v) for k, v in n[1]}
    if t == 'a':
        return n[2].tolist()
    return t


def _oracle_verdict(n):
    if n[0] == 'd' and any(k == "'ok'" for k, _ in n[1]):
        return _plain(n)
    return None


import copy


def _closure(prog, k):
    """steps step k depends on: its dataflow closure, plus every earlier step that modifies one of those values in place
    (directly, or through a documented view of it), with their own closures"""
    from dsim import ops as _ops
    _ops._load()
    names = {st['r']: i for i, st in enumerate(prog)}

    def refs(v):
        if isinstance(v, dict):
            if '$' in v:
                yield v['$']
            for w in v.values():
                yield from refs(w)
        elif isinstance(v, list):
            for w in v:
                yield from refs(w)
    # alias groups (union-find over result names): in-place ops return their argument, view ops return a view of it
    parent = {}

    def find(x):
        parent.setdefault(x, x)
        while parent[x] != x:
            parent[x] = parent[parent[x]]
            x = parent[x]
        return x
    inplace_of = {}
    for i, st in enumerate(prog):
        od = _ops.OPS.get(st['op'])
        tgt = []
        if od is not None:
            for pos in od.inplace:
                a = st.get('a', [])[pos] if isinstance(pos, int) and pos < len(st.get('a', [])) else (st.get('kw') or {}).get(pos)
                if isinstance(a, dict) and '$' in a:
                    tgt.append(a['$'])
            if st['op'] in _ops.VIEW_OPS:
                a0 = st.get('a', [None])[0]
                if isinstance(a0, dict) and '$' in a0:
                    parent[find(st['r'])] = find(a0['$'])
        for t in tgt:
            parent[find(st['r'])] = find(t)
        inplace_of[i] = tgt
    seen, todo = set(), [k]
    while True:
        while todo:
            i = todo.pop()
            if i in seen:
                continue
            seen.add(i)
            for n in refs([prog[i].get('a', []), prog[i].get('kw', {})]):
                if n in names:
                    todo.append(names[n])
        groups = {find(prog[i]['r']) for i in seen}
        more = [i for i in range(k) if i not in seen and any(find(t) in groups for t in inplace_of.get(i, []))]
        if not more:
            return seen
        todo.extend(more)


def _drop_steps(job, cid, drop):
    """remove steps (indices) of client cid, renumbering layout keys and order"""
    j = copy.deepcopy(job)
    prog = j['clients'][cid]
    keep = [i for i in range(len(prog)) if i not in drop]
    remap = {old: new for new, old in enumerate(keep)}
    j['clients'][cid] = [prog[i] for i in keep]
    lay = {}
    for key, kind in (j.get('layout') or {}).items():
        c, kk, a = key.split(':')
        if c != cid:
            lay[key] = kind
        elif int(kk) in remap:
            lay['%s:%d:%s' % (c, remap[int(kk)], a)] = kind
    j['layout'] = lay
    # rebuild order: remove the matching occurrences
    cnt = 0
    order = []
    for c in j['order']:
        if c == cid:
            if cnt in remap:
                order.append(c)
            cnt += 1
        else:
            order.append(c)
    j['order'] = order
    return j, remap


def frames_by_client(res):
    done = collections.defaultdict(dict)
    begun = None
    end = None
    for f in res['frames']:
        if f.get('begin'):
            begun = (f['cid'], f['k'], f['op'])
        elif f.get('end'):
            end = f
        elif 'nf' in f:
            done[f['cid']][f['k']] = f
            begun = None
    return done, begun, end


def upstream_layout(job, cid, k):
    """layout faults applied on step k of cid or on any step it (transitively) depends on"""
    prog = job['clients'][cid]
    names = {st['r']: i for i, st in enumerate(prog)}
    seen, todo, out = set(), [k], []
    while todo:
        i = todo.pop()
        if i in seen:
            continue
        seen.add(i)
        for key, kind in (job.get('layout') or {}).items():
            c, kk, a = key.split(':')
            if c == cid and int(kk) == i:
                out.append((i, a, kind))

        def refs(v):
            if isinstance(v, dict):
                if '$' in v:
                    yield v['$']
                for w in v.values():
                    yield from refs(w)
            elif isinstance(v, list):
                for w in v:
                    yield from refs(w)
        for nme in refs([prog[i].get('a', []), prog[i].get('kw', {})]):
            if nme in names:
                todo.append(names[nme])
    return sorted(out), sorted(seen)


def OPS_NO_COMPARE(op):
    from dsim import ops
    ops._load()
    od = ops.OPS.get(op)
    return True if od is None else od.no_compare


def evaluate(pool, lane, job, use_ref_for_session=False, nclosure=2):
    """Run the session on the lane's session zygote and every client alone on the lane's reference
    zygote; return (findings, stats).  A finding: {'class', 'cid', 'k', 'op', 'message', 'detail'}."""
    ref_z, ses_z = pool.lanes[lane]
    if use_ref_for_session:
        ses_z = ref_z
    res = ses_z.run(job)
    findings = []
    stats = collections.Counter()
    if res['timed_out']:
        raise H.HarnessFailure('session timed out')
    done, begun, end = frames_by_client(res)
    crashed = res['signal'] != 0 or (end is None and not res['timed_out'])
    refs = {}
    for cid in sorted(job['clients']):
        if cid == 'cx':
            continue
        r = ref_z.run(G.solo_job(job, cid))
        if r['timed_out']:
            raise H.HarnessFailure('reference timed out')
        rd, rbegun, rend = frames_by_client(r)
        refs[cid] = (rd[cid], r['signal'], rbegun)
        if r['signal'] != 0 or rend is None:
            # the pristine run itself dies: a crash with canonical inputs and no history
            k = rbegun[1] if rbegun else -1
            findings.append({'class': 'crash', 'cid': cid, 'k': k, 'op': rbegun[2] if rbegun else '?', 'cause': 'intrinsic',
                             'message': 'pristine run of the client alone died on signal %s in %s' % (r['signal'], rbegun)})
    # closure references: the pristine run of the whole client still shares the client's *own* earlier calls with the
    # session, so a cache collision between two calls of one client would be invisible; for up to `nclosure` steps
    # per client the step is also evaluated with nothing but its dataflow closure in another pristine fork
    for cid in sorted(job['clients']):
        if cid == 'cx' or not nclosure:
            continue
        prog = job['clients'][cid]
        refd = refs[cid][0]
        cand = [k for k in range(len(prog)) if k in refd and not refd[k].get('skipped')
                and len(_closure(prog, k)) < k + 1 and OPS_NO_COMPARE(prog[k]['op']) is False]
        # prefer late steps (most history before them), spread deterministically
        cand = cand[::-1][:nclosure]
        for k in cand:
            up = _closure(prog, k)
            solo = G.solo_job(job, cid)
            cj, remap = _drop_steps(solo, cid, set(range(len(prog))) - up)
            r = ref_z.run(cj)
            cd, cb, ce = frames_by_client(r)
            stats['closure_refs'] += 1
            kk = remap[k]
            if kk in cd[cid] and not cd[cid][kk].get('skipped'):
                d = SE.nf_diff(refd[k]['nf'], cd[cid][kk]['nf'])
                if d:
                    findings.append({'class': d[0], 'cid': cid, 'k': k, 'op': prog[k]['op'], 'layout': [], 'cause': 'own-history',
                                     'message': '%s (step %d of %s) alone in a pristine interpreter with only its inputs differs from the same call after the '
                                                'client\'s own earlier calls: %s' % (prog[k]['op'], k, cid, d[1])})
    for f in res['frames']:
        if f.get('harness'):
            raise H.HarnessFailure('executor: %s' % f['harness'])
    stats['ops'] = sum(len(v) for v in done.values())
    memory_unsafe = False
    if crashed:
        stats['crashed_sessions'] += 1
        if begun is not None:
            cid, k, op = begun
            refd = refs.get(cid, ({}, 0, None))[0]
            if cid != 'cx' and k in refd:
                lay, _ = upstream_layout(job, cid, k)
                findings.append({'class': 'crash', 'cid': cid, 'k': k, 'op': op, 'layout': lay,
                                 'message': 'interpreter died on signal %s inside %s (step %d of %s); the pristine run completed it' % (res['signal'], op, k, cid)})
        memory_unsafe = True
    first_bad = set()
    for f in (done.get('cx') or {}).values():
        # the interference client is not compared with a reference, but its ops must preserve their arguments too
        if f.get('mutated'):
            findings.append({'class': 'mutates-argument', 'cid': 'cx', 'k': f['k'], 'op': f['op'], 'args': f['mutated'], 'layout': [],
                             'message': '%s changed its argument(s) %s in place' % (f['op'], f['mutated'])})
    for cid in sorted(job['clients']):
        if cid == 'cx':
            continue
        refd = refs[cid][0]
        for k in sorted(done[cid]):
            f = done[cid][k]
            for hk, hv in (f.get('hits') or {}).items():
                stats['hit_' + hk] += hv
            for a, kind in f.get('layout') or []:
                stats['layout_' + kind] += 1
            if f.get('skipped'):
                continue
            if f.get('mutated'):
                lay, _ = upstream_layout(job, cid, k)
                findings.append({'class': 'mutates-argument', 'cid': cid, 'k': k, 'op': f['op'], 'args': f['mutated'], 'layout': lay,
                                 'message': '%s changed its argument(s) %s in place' % (f['op'], f['mutated'])})
            for c2, nm, pk, pop in f.get('mutated_other') or []:
                findings.append({'class': 'mutates-other', 'cid': cid, 'k': k, 'op': f['op'], 'layout': [], 'args': [nm],
                                 'message': '%s (step %d of %s) changed a value it was not given to modify: %s of client %s, produced by step %d (%s) -- '
                                            'that value shares memory with an argument without a documented view contract, or the call wrote through it'
                                            % (f['op'], k, cid, nm, c2, pk, pop)})
            if f.get('alias'):
                findings.append({'class': 'alias', 'cid': cid, 'k': k, 'op': f['op'], 'args': f['alias'],
                                 'message': '%s returned an array sharing memory with argument(s) %s' % (f['op'], f['alias'])})
            if f['op'].startswith(('C19.', 'ORACLE.')) and f['nf'][0] == 'exc':
                # the oracle ops call dadi with well-formed inputs (>= k+2 bootstraps, positive models): an exception
                # inside them is dadi failing, and it would be invisible to the pristine comparison when the cause lies
                # within the same client's own history
                findings.append({'class': 'oracle-raises', 'cid': cid, 'k': k, 'op': f['op'], 'layout': [],
                                 'message': '%s raised %s: %s' % (f['op'], f['nf'][1], f.get('exc_msg'))})
            ov = _oracle_verdict(f['nf'])
            if ov is not None:
                stats['oracle_ops'] += 1
                stats['oracle_' + f['op']] += 1
                if ov.get('skipped'):
                    stats['oracle_skipped'] += 1
                if not ov.get('ok', True):
                    findings.append({'class': 'oracle-fails', 'cid': cid, 'k': k, 'op': f['op'], 'layout': [],
                                     'message': '%s: %s' % (f['op'], {kk: vv for kk, vv in ov.items() if kk != 'ok'})})
            if k not in refd or cid in first_bad:
                continue
            rf = refd[k]
            if rf.get('skipped'):
                continue
            d = SE.nf_diff(f['nf'], rf['nf'])
            if d:
                first_bad.add(cid)     # later steps of this client inherit the difference
                lay, ups = upstream_layout(job, cid, k)
                findings.append({'class': d[0], 'cid': cid, 'k': k, 'op': f['op'], 'layout': lay,
                                 'message': '%s (step %d of %s): %s' % (f['op'], k, cid, d[1]),
                                 'exc_msg': f.get('exc_msg'), 'ref_exc_msg': rf.get('exc_msg')})
            if rf.get('mutated'):
                findings.append({'class': 'mutates-argument', 'cid': cid, 'k': k, 'op': rf['op'], 'args': rf['mutated'], 'layout': [], 'cause': 'intrinsic',
                                 'message': '%s changed its argument(s) %s in place (pristine run)' % (rf['op'], rf['mutated'])})
            if rf.get('alias'):
                findings.append({'class': 'alias', 'cid': cid, 'k': k, 'op': rf['op'], 'args': rf['alias'], 'cause': 'intrinsic',
                                 'message': '%s returned an array sharing memory with argument(s) %s (pristine run)' % (rf['op'], rf['alias'])})
            if f['nf'][0] == 'exc':
                stats['ops_raising'] += 1
                stats['exc_' + f['op'] + ':' + f['nf'][1]] += 1
    if end is not None and end.get('geterr') is not None:
        ge = end['geterr']
        if ge != {'divide': 'ignore', 'over': 'ignore', 'under': 'ignore', 'invalid': 'ignore'}:
            findings.append({'class': 'global-state', 'cid': '-', 'k': -1, 'op': 'numpy.seterr',
                             'message': 'numpy error state after the session is %r (dadi sets all=ignore at import)' % (ge,)})
    if end is not None and end.get('fpenv') is not None:
        fe = end['fpenv']
        if fe[:3] != [True, True, True] or abs(fe[3] - (1.0 + 3e-320 / 1e-310)) > 1e-6:
            findings.append({'class': 'global-state', 'cid': '-', 'k': -1, 'op': 'fp-environment',
                             'message': 'after the session, subnormal numbers are flushed to zero in the interpreter thread (probe %r): a call changed the '
                                        'floating-point environment and did not restore it' % (fe,)})
    # de-duplicate identical findings (session + pristine report the same intrinsic one)
    uniq, seen = [], set()
    for fd in findings:
        key = (fd['class'], fd['cid'], fd['k'], tuple(fd.get('args') or ()))
        if key not in seen:
            seen.add(key)
            uniq.append(fd)
    return uniq, stats
