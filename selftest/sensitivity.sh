#!/bin/bash
# sensitivity.sh [pattern]: run every mutant of the corpus (selftest/mutants/*.diff; prefix M17/R17 -> C17, M19/R19 -> C19, M20/R20 -> C20)
# against its property's quick check in a scratch copy; prints one line per mutant.  Exit 0 iff every mutant was caught (rc=1).
cd /verif
pat="${1:-*}"
fail=0
for f in selftest/mutants/$pat.diff; do
  b=$(basename $f .diff); p=C${b:1:2}
  r=$(selftest/run_mutant.sh $f $p | tail -1)
  echo "$r"
  case "$r" in *rc=1*) ;; *) fail=1;; esac
done
exit $fail
