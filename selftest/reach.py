"""Reach audit for engine B (not a registered check): which functions of the modules the properties name
actually run inside generated sessions.  Runs N C20 and N C19 sessions with the session executor's reach
probe (sys.setprofile in the forked child), unions the reached (file:qualname) set and compares it with every
function defined in the audited source files (ast).  Usage: ./selftest/reach.py [N] [seed] [repo]
Writes selftest/reach.json (covered / not covered per module) -- feeds DESIGN.md appendix B."""
import ast, json, os, sys
HERE = os.path.dirname(os.path.dirname(os.path.abspath(__file__)))
sys.path.insert(0, HERE)
AUDIT = ['Spectrum_mod.py', 'Integration.py', 'Numerics.py', 'Inference.py', 'Godambe.py', 'LowPass/LowPass.py', 'PhiManip.py', 'Misc.py',
         'Demes/Demes.py', 'Demes/__init__.py', 'NLopt_mod.py']


def defined(repo):
    out = {}
    for rel in AUDIT:
        path = os.path.join(repo, 'dadi', rel)
        if not os.path.exists(path):
            continue
        tree = ast.parse(open(path).read())
        names = []

        def walk(node, prefix):
            for ch in ast.iter_child_nodes(node):
                if isinstance(ch, (ast.FunctionDef, ast.AsyncFunctionDef)):
                    names.append(prefix + ch.name)
                    walk(ch, prefix + ch.name + '.<locals>.')
                elif isinstance(ch, ast.ClassDef):
                    walk(ch, prefix + ch.name + '.')
                else:
                    walk(ch, prefix)
        walk(tree, '')
        out[rel] = names
    return out


def main():
    n = int(sys.argv[1]) if len(sys.argv) > 1 else 400
    seed = int(sys.argv[2]) if len(sys.argv) > 2 else 20261003
    repo = sys.argv[3] if len(sys.argv) > 3 else '/repo'
    from dsim import build, oracle, harness as H
    build.preload(repo)
    from checks import c20_main, c19_main
    pool = oracle.Pool(repo, [1 + i for i in range(H.nproc_default())])
    reached = set()

    def work(pool_, lane, item):
        which, idx = item
        gen = c20_main.sess_item if which == 'c20' else c19_main.gen
        job = gen(seed, 'main', idx, idx % 5 != 0)
        job['reach'] = True
        res = pool_.lanes[lane][1].run(job)
        r = set()
        for f in res['frames']:
            if f.get('end'):
                r.update(f.get('reach') or [])
        return r
    try:
        for r in pool.work(work, [('c20', i) for i in range(n)] + [('c19', i) for i in range(n // 4)]):
            if r:
                reached |= r
    finally:
        pool.close()
    d = defined(repo)
    rep = {}
    for rel, names in d.items():
        cov = [x for x in names if rel + ':' + x in reached]
        unc = [x for x in names if rel + ':' + x not in reached]
        rep[rel] = {'defined': len(names), 'reached': len(cov), 'not_reached': unc}
        print('%-22s %3d / %3d reached; not reached: %s' % (rel, len(cov), len(names), ', '.join(unc)))
    json.dump({'sessions_c20': n, 'sessions_c19': n // 4, 'seed': seed, 'modules': rep}, open(os.path.join(HERE, 'selftest', 'reach.json'), 'w'), indent=1)


if __name__ == '__main__':
    main()
    sys.stdout.flush()
    os._exit(0)
