#!/bin/bash
# scratch.sh <dir>: value copy of /repo's working tree (sources + generated .c + .so), outside /repo and /verif
set -e
d="$1"; rm -rf "$d"; mkdir -p "$d"
rsync -a --exclude .git --exclude doc --exclude examples --exclude 'tests/test_data' --exclude build /repo/ "$d"/
