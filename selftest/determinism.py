"""Determinism self-test (DESIGN.md 2.5): one seed = one exactly repeatable execution.
Engine A: every seed is run twice, in different pool workers, at two pool sizes and under another PYTHONHASHSEED
of the harness interpreter (fresh process); decision logs / trace digests must be identical.
Engine B: every session is run twice on different lanes (same hash seed) and results must be bit-identical."""
import json, os, subprocess, sys, time

from dsim import rng as R, harness as H


def a_digest(args):
    root, idx = args
    from checks import c17
    s = R.derive(root, 'selftest', 'cfg', idx)
    cfg = c17.gen_cfg(s, 'fault' if idx % 3 == 0 else 'sched', 0.02)
    out, cache, log, v, ref = c17.run_cfg(cfg, stream=R.derive(root, 'selftest', 'run', idx))
    payload = None
    if cache is not None:
        import numpy as np
        sp = cache.spectra
        if isinstance(sp, np.ndarray):
            payload = H.digest(sp.tobytes().hex()[:4096] + str(sp.shape))
    return [out['trace_digest'], out['sched_digest'], H.digest(log), out['outcome'], out.get('exc_type'), payload, None if v is None else v[0]]


def engine_a(root, n):
    items = [(root, i) for i in range(n)]
    r1 = H.fan_out(a_digest, items, nproc=5, item_timeout=300)
    r2 = H.fan_out(a_digest, items[::-1], nproc=16, item_timeout=300)[::-1]
    return r1, r2


def main(tier, root, budget_s=None, replay=None):
    n = 150 if tier == 'quick' else 3000
    if os.environ.get('VERIF_SELFTEST_CHILD'):
        r1, _ = engine_a(root, n) if False else (H.fan_out(a_digest, [(root, i) for i in range(n)], nproc=8, item_timeout=300), None)
        json.dump(r1, open(os.environ['VERIF_SELFTEST_CHILD'], 'w'))
        return 0
    t0 = time.time()
    r1, r2 = engine_a(root, n)
    bad = [i for i in range(n) if r1[i] != r2[i]]
    if bad:
        print('HARNESS: engine A not deterministic across workers/pool sizes for run(s) %s: %s vs %s' % (bad[:5], r1[bad[0]], r2[bad[0]]))
        return 2
    # fresh interpreter under another PYTHONHASHSEED
    tmp = os.path.join(H.VERIF, '.work')
    os.makedirs(tmp, exist_ok=True)
    out = os.path.join(tmp, 'selftest-%d.json' % os.getpid())
    env = dict(os.environ, PYTHONHASHSEED='98765', VERIF_SELFTEST_CHILD=out)
    repo = os.path.dirname(os.path.dirname(os.path.abspath(__import__('dadi').__file__)))
    p = subprocess.run([sys.executable, os.path.join(H.VERIF, 'cli.py'), 'SELFTEST', '--tier', tier, '--seed', str(root), '--repo', repo], env=env,
                       stdout=subprocess.PIPE, stderr=subprocess.STDOUT, timeout=3600)
    if p.returncode != 0 or not os.path.exists(out):
        print('HARNESS: self-test child failed: %s' % p.stdout.decode()[-800:])
        return 2
    r3 = json.load(open(out))
    os.unlink(out)
    bad = [i for i in range(n) if r1[i] != r3[i]]
    if bad:
        print('HARNESS: engine A depends on the harness interpreter\'s PYTHONHASHSEED for run(s) %s' % bad[:5])
        return 2
    ta = time.time() - t0
    # engine B
    from dsim import oracle, session as SE
    from checks import c20, c20_gen as G, c19_main
    m = 40 if tier == 'quick' else 600
    pool = oracle.Pool(repo, [7, 7, 7, 7])
    try:
        jobs = [(G.gen_session(R.derive(root, 'selftestB', i), faults=True) if i % 2 else c19_main.gen(root, 'selftestB', i, True)) for i in range(m)]

        def fn(pool_, lane, job):
            a = pool_.lanes[lane][1].run(job)
            b = pool_.lanes[(lane + 1) % 4][1].run(job)
            da, _, _ = c20.frames_by_client(a)
            db, _, _ = c20.frames_by_client(b)
            for cid in da:
                for k in da[cid]:
                    if k not in db[cid]:
                        return 'missing frame'
                    d = SE.nf_diff(da[cid][k]['nf'], db[cid][k]['nf'], rtol=0.0, afloor=0.0)
                    if d:
                        return '%s %s' % (da[cid][k]['op'], d[1])
            return None
        res = pool.work(fn, jobs)
    finally:
        pool.close()
    bad = [(i, r) for i, r in enumerate(res) if r]
    if bad:
        print('HARNESS: engine B session %d not bit-reproducible: %s' % bad[0])
        return 2
    print('SELFTEST %s: engine A %d seeds x (5-proc, 16-proc, other PYTHONHASHSEED) identical in %.1fs; engine B %d sessions x 2 lanes bit-identical'
          % (tier, n, ta, m))
    return 0
