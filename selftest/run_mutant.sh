#!/bin/bash
# run_mutant.sh <patch> <PROP> [extra check args]: apply patch to a scratch copy, run the quick check against it.
# prints the tail of the output and "RESULT <patch> rc=<rc>"; rc=1 means the mutant was caught.
patch="$1"; prop="$2"; shift 2
d=/dev/shm/verif-mut-$$-$(basename "$patch" .diff)
/verif/selftest/scratch.sh "$d"
if ! patch -s -p1 -d "$d" < "$patch"; then echo "RESULT $patch patch-failed"; rm -rf "$d"; exit 3; fi
out=/dev/shm/verif-mut-out-$$
mkdir -p "$out"
VERIF_OUT_DIR="$out" VERIF_BUILD_DIR=/dev/shm/verif-mut-build /verif/check "$prop" --tier quick --repo "$d" "$@" > "$out/log" 2>&1
rc=$?
grep -E "^(violation|VIOLATION|KNOWN|HARNESS|C[0-9]+ )" "$out/log" | cut -c1-300 | head -30
echo "RESULT $(basename $patch) rc=$rc"
rm -rf "$d" "$out"
exit 0
