#!/bin/bash
# run_mutant.sh <patch> <PROP> [extra check args]: apply patch to a scratch copy of /repo (under /dev/shm), run the quick check against it,
# then replay the first reported replay file against the mutant (must reproduce: rc 1) and against the pristine tree (must not: rc 0).
# prints "RESULT <patch> rc=<rc> replay_on_mutant=<rc> replay_on_pristine=<rc>"; rc=1 means the mutant was caught.
patch="$1"; prop="$2"; shift 2
d=/dev/shm/verif-mut-$$-$(basename "$patch" .diff)
/verif/selftest/scratch.sh "$d"
if ! patch -s -p1 -d "$d" < "$patch"; then echo "RESULT $patch patch-failed"; rm -rf "$d"; exit 3; fi
out=/dev/shm/verif-mut-out-$$
mkdir -p "$out"
export VERIF_OUT_DIR="$out" VERIF_BUILD_DIR=/dev/shm/verif-mut-build
/verif/check "$prop" --tier quick --repo "$d" "$@" > "$out/log" 2>&1
rc=$?
grep -E "^(violation|VIOLATION|KNOWN|HARNESS|note|C[0-9]+ )" "$out/log" | cut -c1-300 | head -30
rm=-; rp=-
rf=$(grep -E "^VIOLATION" "$out/log" | grep -v crash | head -1 | sed 's/.*replay=//')
if [ -n "$rf" ] && [ "$NOREPLAY" = "" ]; then
  /verif/check "$prop" --replay "$rf" --repo "$d" > "$out/replay_mut.log" 2>&1; rm=$?
  /verif/check "$prop" --replay "$rf" --repo /repo > "$out/replay_pri.log" 2>&1; rp=$?
fi
echo "RESULT $(basename $patch) rc=$rc replay_on_mutant=$rm replay_on_pristine=$rp"
rm -rf "$d" "$out"
exit 0
