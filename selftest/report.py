#!/venv/bin/python
"""report.py: render the sensitivity tables of DESIGN.md appendix D from seeded/*/meta.json, seeded/_results/recheck.log and
selftest/sensitivity.log (both logs are produced by seeded/recheck.sh and selftest/sensitivity.sh and committed)."""
import glob, json, os, re, sys
V = '/verif'
rk = {}
for line in open(os.path.join(V, 'seeded/_results/recheck.log')):
    m = re.match(r'(S\S+) rc=(\d+) (\d+) violations: (.*)', line.strip())
    if m:
        rk[m.group(1)] = (int(m.group(2)), m.group(4))
print('| id | property | change (written by an independent sub-agent) | needs, to manifest | caught by (violation keys of the quick check) |')
print('|---|---|---|---|---|')
for f in sorted(glob.glob(os.path.join(V, 'seeded/S*/meta.json'))):
    m = json.load(open(f))
    sid = m['id']
    rc, keys = rk.get(sid, (None, '?'))
    keys = '; '.join(sorted(set(k.replace('class=', '') for k in keys.split(';') if k)))[:260]
    def c(t):
        return (t or '').replace('\n', ' ').replace('|', '/')[:230]
    print('| %s | %s | %s | %s | %s |' % (sid, m['property'], c(m['summary']), c(m['needs_to_manifest']), ('**missed**' if rc == 0 else ('harness error' if rc == 2 else keys))))
print()
print('| mutant (selftest/mutants) | property | result of the quick check | replay on mutant / on pristine tree |')
print('|---|---|---|---|')
for line in open(os.path.join(V, 'selftest/sensitivity.log')):
    m = re.match(r'RESULT (\S+)\.diff rc=(\S+)(?: replay_on_mutant=(\S+) replay_on_pristine=(\S+))?', line.strip())
    if m:
        b = m.group(1)
        print('| %s | C%s | %s | %s / %s |' % (b, b[1:3], {'1': 'caught (exit 1)', '0': '**missed**'}.get(m.group(2), 'rc=' + m.group(2)), m.group(3) or '-', m.group(4) or '-'))
