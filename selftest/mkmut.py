#!/venv/bin/python
"""mkmut.py <name> <relpath> <old> <new> [count]: write selftest/mutants/<name>.diff replacing old by new in /repo's file
(the nth occurrence if count given as 'n:<k>', every occurrence otherwise).  Nothing in /repo is touched."""
import sys, os, difflib
name, rel, old, new = sys.argv[1:5]
which = sys.argv[5] if len(sys.argv) > 5 else 'all'
src = open(os.path.join('/repo', rel)).read()
old = old.encode().decode('unicode_escape'); new = new.encode().decode('unicode_escape')
assert old in src, 'pattern not found'
if which == 'all':
    dst = src.replace(old, new)
else:
    ks = [int(x) for x in which[2:].split(',')]
    parts = src.split(old)
    dst = parts[0]
    for i, p in enumerate(parts[1:]):
        dst += (new if i in ks else old) + p
d = difflib.unified_diff(src.splitlines(True), dst.splitlines(True), 'a/' + rel, 'b/' + rel)
out = os.path.join(os.path.dirname(os.path.abspath(__file__)), 'mutants', name + '.diff')
mode = 'a' if os.environ.get('APPEND') else 'w'
open(out, mode).write(''.join(d))
print(out)
