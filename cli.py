"""CLI of the verification checks.  Exit 0 = held on everything explored, 1 = violation (VIOLATION line
printed), 2 = harness error (never a pass, never a violation)."""
import argparse, os, sys, traceback

HERE = os.path.dirname(os.path.abspath(__file__))
sys.path.insert(0, HERE)


def main():
    ap = argparse.ArgumentParser()
    ap.add_argument('prop')
    ap.add_argument('--tier', default=os.environ.get('VERIF_TIER', 'quick'), choices=['quick', 'thorough'])
    ap.add_argument('--seed', type=int, default=None)
    ap.add_argument('--replay', default=None)
    ap.add_argument('--repo', default=os.environ.get('VERIF_REPO', '/repo'))
    ap.add_argument('--budget', type=float, default=None)
    a = ap.parse_args()
    seed = a.seed if a.seed is not None else int(os.environ.get('VERIF_SEED', '20261003'))
    print('VERIF_SEED=%d tier=%s repo=%s' % (seed, a.tier, a.repo), flush=True)
    from dsim import build, harness
    try:
        build.preload(a.repo)
    except build.BuildError as e:
        print('HARNESS: build failed: %s' % e)
        return 2
    mods = {'C17': 'checks.c17_main', 'C19': 'checks.c19_main', 'C20': 'checks.c20_main', 'SELFTEST': 'selftest.determinism'}
    if a.prop not in mods:
        print('unknown property %s' % a.prop)
        return 2
    import importlib
    try:
        m = importlib.import_module(mods[a.prop])
        return m.main(a.tier, seed, budget_s=a.budget, replay=a.replay)
    except harness.HarnessFailure as e:
        print('HARNESS: %s' % e)
        return 2
    except Exception:
        traceback.print_exc()
        print('HARNESS: unexpected exception in the checker')
        return 2


if __name__ == '__main__':
    sys.stdout.reconfigure(line_buffering=True)
    rc = main()
    sys.stdout.flush()
    os._exit(rc)
