"""Rebuild dadi's compiled extensions from the *working tree* of the repo under test and preload
them, so that an edit to a .c file is what the checks exercise (the .so files in the tree are
git-ignored build products and may be stale).  Cython is not available offline, so a .pyx edit
cannot be regenerated: that situation is detected and refused (exit 2), never silently ignored."""
import hashlib, os, subprocess, sys, sysconfig, shutil, tempfile, importlib.machinery, importlib.util

VERIF = os.path.dirname(os.path.dirname(os.path.abspath(__file__)))
BUILD_ROOT = os.environ.get('VERIF_BUILD_DIR', os.path.join(VERIF, '.build'))

EXTS = {
    'dadi.tridiag_cython': ['dadi/tridiag_cython.c', 'dadi/tridiag.c'],
    'dadi.integration_c': ['dadi/integration_c.c', 'dadi/integration1D.c', 'dadi/integration2D.c',
                           'dadi/integration3D.c', 'dadi/integration4D.c', 'dadi/integration5D.c',
                           'dadi/integration_shared.c', 'dadi/tridiag.c'],
    'dadi.DFE.PDFs_cython': ['dadi/DFE/PDFs_cython.c'],
}
# headers / included sources that influence the build
EXTRA = ['dadi/integration_cython.h', 'dadi/integration_shared.h', 'dadi/tridiag.h', 'dadi/DFE/PDFs.c']
PYX = {'dadi/tridiag_cython.c': 'dadi/tridiag_cython.pyx', 'dadi/integration_c.c': 'dadi/integration_c.pyx',
       'dadi/DFE/PDFs_cython.c': 'dadi/DFE/PDFs_cython.pyx'}


class BuildError(Exception):
    pass


def _sha(path):
    with open(path, 'rb') as f:
        return hashlib.sha256(f.read()).hexdigest()


def pyx_fingerprint(repo):
    """The generated .c embeds nothing we can use to verify it matches the .pyx, so we pin the
    sha256 of the three .pyx files as they are at the commit the generated .c came from."""
    return {p: _sha(os.path.join(repo, p)) for p in PYX.values()}


STALE_PYX = []
PINS_FILE = os.path.join(VERIF, 'dsim', 'pyx_pins.json')


def tree_hash(repo):
    h = hashlib.sha256()
    files = sorted(set(sum(EXTS.values(), [])) | set(EXTRA))
    for rel in files:
        p = os.path.join(repo, rel)
        if not os.path.exists(p):
            raise BuildError('missing source %s (generated .c files are needed; Cython is not available offline)' % p)
        h.update(rel.encode()); h.update(_sha(p).encode())
    h.update(sys.version.encode())
    import numpy
    h.update(numpy.__version__.encode())
    return h.hexdigest()[:20]


def check_pyx(repo):
    import json
    if not os.path.exists(PINS_FILE):
        return
    pins = json.load(open(PINS_FILE))
    for rel, want in pins.items():
        got = _sha(os.path.join(repo, rel))
        if got != want:
            STALE_PYX.append(rel)
            print('WARNING: %s differs from the version the generated C was produced from; Cython is not '
                  'installed offline so the edit cannot be compiled and has no effect on what runs '
                  '(the checks exercise the generated .c, as the test suite does)' % rel, file=sys.stderr)


def build(repo):
    """Return directory holding freshly built extension modules for this tree (cached by content hash)."""
    repo = os.path.abspath(repo)
    check_pyx(repo)
    th = tree_hash(repo)
    out = os.path.join(BUILD_ROOT, th)
    if os.path.isdir(out) and all(os.path.exists(os.path.join(out, n.split('.')[-1] + '.so')) for n in EXTS):
        return out
    os.makedirs(BUILD_ROOT, exist_ok=True)
    tmp = tempfile.mkdtemp(prefix='tmp-', dir=BUILD_ROOT)
    import numpy
    inc = ['-I' + sysconfig.get_paths()['include'], '-I' + numpy.get_include(),
           '-I' + os.path.join(repo, 'dadi'), '-I' + os.path.join(repo, 'dadi/DFE')]
    procs = []
    for name, srcs in EXTS.items():
        so = os.path.join(tmp, name.split('.')[-1] + '.so')
        cmd = ['gcc', '-O2', '-fPIC', '-shared', '-fno-strict-aliasing', '-w',
               '-DNPY_NO_DEPRECATED_API=NPY_1_7_API_VERSION'] + inc + \
              [os.path.join(repo, s) for s in srcs] + ['-o', so, '-lm']
        procs.append((name, cmd, subprocess.Popen(cmd, stdout=subprocess.PIPE, stderr=subprocess.STDOUT)))
    for name, cmd, p in procs:
        o, _ = p.communicate()
        if p.returncode != 0:
            shutil.rmtree(tmp, ignore_errors=True)
            raise BuildError('compile of %s failed:\n%s' % (name, o.decode(errors='replace')[-4000:]))
    try:
        os.rename(tmp, out)
    except OSError:
        shutil.rmtree(tmp, ignore_errors=True)  # somebody else won the race
    return out


def preload(repo):
    """Build, then import dadi from `repo` with the rebuilt extensions.  Must be called before any
    `import dadi`.  Returns the imported dadi module."""
    repo = os.path.abspath(repo)
    if 'dadi' in sys.modules:
        raise BuildError('dadi imported before preload')
    out = build(repo)
    sys.path.insert(0, repo)
    # import parent packages lazily: we must insert the extension modules *before* dadi/__init__ runs
    # its imports, so use a meta-path finder that redirects exactly these three names.
    class _Finder:
        def find_spec(self, fullname, path=None, target=None):
            if fullname in EXTS:
                so = os.path.join(out, fullname.split('.')[-1] + '.so')
                loader = importlib.machinery.ExtensionFileLoader(fullname, so)
                return importlib.util.spec_from_file_location(fullname, so, loader=loader)
            return None
    sys.meta_path.insert(0, _Finder())
    import dadi
    import dadi.DFE
    if not os.path.abspath(dadi.__file__).startswith(repo + os.sep):
        raise BuildError('dadi imported from %s, not from %s' % (dadi.__file__, repo))
    for n in EXTS:
        m = sys.modules.get(n)
        if m is None or not os.path.abspath(m.__file__).startswith(out):
            raise BuildError('extension %s not loaded from rebuilt copy (%s)' % (n, getattr(m, '__file__', None)))
    return dadi


def py_hash(repo):
    h = hashlib.sha256()
    for root, dirs, files in sorted(os.walk(os.path.join(repo, 'dadi'))):
        dirs.sort()
        for f in sorted(files):
            if f.endswith('.py'):
                p = os.path.join(root, f)
                h.update(os.path.relpath(p, repo).encode()); h.update(_sha(p).encode())
    return h.hexdigest()[:20]


if __name__ == '__main__':
    repo = sys.argv[1] if len(sys.argv) > 1 else '/repo'
    try:
        print(build(repo))
    except BuildError as e:
        print('BUILD ERROR:', e, file=sys.stderr)
        sys.exit(2)
