"""C19 oracle ops: each calls dadi.Godambe inside the session (so it shares the module-level spectrum cache
and the allocator with whatever ran before) and compares with an independent closed form / exact value.
The op returns {'ok': bool, 'err', 'bound', 'what', ...}; a result with ok False is a finding."""
import math
import numpy as np

from . import ops as OPS

EPSM = 2.220446049250313e-16


# ------------------------------------------------------------------------------------------------
# exact stencils on quadratics / linear functions

def _quad(seed, k):
    rs = np.random.RandomState(seed)
    A = rs.uniform(-2, 2, size=(k, k))
    A = 0.5 * (A + A.T)
    b = rs.uniform(-3, 3, size=k)
    c = rs.uniform(-5, 5)
    return A, b, c


def _p0(seed, k, eps, zmask, integer=False):
    """parameters: regular, exactly zero (zmask 1), tiny |p|*eps < 1e-6 (zmask 2), negative regular (zmask 3)"""
    rs = np.random.RandomState(seed + 77)
    if integer:      # integer-typed parameter vectors are legal input: [2, 3, 1]
        return [float({1: 0, 3: -rs.randint(1, 4)}.get(zmask[j % len(zmask)], rs.randint(1, 5))) for j in range(k)]
    p = []
    for j in range(k):
        z = zmask[j % len(zmask)]
        if z == 1:
            p.append(0.0)
        elif z == 2:
            p.append(rs.uniform(0.05, 0.9) * 1e-6 / eps)
        elif z == 3:
            p.append(-rs.uniform(0.3, 3.0))
        else:
            p.append(rs.uniform(0.3, 3.0))
    return p


def _one_sided_respected(p0, eps, pts_seen):
    """the statement: at parameters that are zero or tiny (0 <= p, p*eps < 1e-6) one-sided stencils are used -- observable as:
    the function is never evaluated below such a parameter's value (e.g. at a negative population size)"""
    for j, pj in enumerate(p0):
        if pj >= 0 and pj * eps < 1e-6:
            for q in pts_seen:
                if q[j] < pj - 1e-300:
                    return 'two-sided stencil at a zero / tiny parameter: evaluated coordinate %d at %r below its value %r' % (j, float(q[j]), pj)
    return None


def _contain(p0, container):
    if container in ('intlist', 'intarray'):
        ip = [int(v) for v in p0]
        return ip if container == 'intlist' else np.array(ip)
    return {'list': list(p0), 'tuple': tuple(p0), 'array': np.array(p0)}[container]


def _steps(p0, eps):
    h, one = [], []
    for p in p0:
        if p != 0:
            if p * eps < 1e-6:
                h.append(eps)
                one.append(True)
            else:
                h.append(eps * p)
                one.append(False)
        else:
            h.append(eps)
            one.append(True)
    return np.array(h), one


def stencil_hess(seed, k, eps, zmask, container='list'):
    """get_hess on a random quadratic: exact up to round-off"""
    from dadi import Godambe
    A, b, c = _quad(seed, k)
    p0 = _p0(seed, k, eps, zmask, container.startswith('int'))
    pts_seen = []

    def f(p):
        pts_seen.append(np.array(p, dtype=float))
        return float(0.5 * np.dot(p, np.dot(A, p)) + np.dot(b, p) + c)
    arg = _contain(p0, container)
    H = Godambe.get_hess(f, arg, eps)
    side = _one_sided_respected(p0, eps, pts_seen)
    if side:
        return {'ok': False, 'what': 'get_hess: ' + side, 'k': k, 'eps': eps, 'p0': p0}
    h, one = _steps(p0, eps)
    # round-off: every f value carries ~eps_mach*|f|; second differences divide by h_i*h_j
    span = np.abs(np.array(p0)) + 2 * np.abs(h)
    fmax = 0.5 * np.dot(span, np.dot(np.abs(A), span)) + np.dot(np.abs(b), span) + abs(c)
    bound = 64 * EPSM * fmax / np.outer(np.abs(h), np.abs(h)) + 1e-300
    err = np.abs(H - A)
    r = float((err / bound).max())
    return {'ok': bool(r <= 1.0) and H.shape == (k, k), 'ratio': r, 'what': 'get_hess exact on quadratic', 'k': k, 'eps': eps, 'p0': p0,
            'one_sided': one, 'maxerr': float(err.max())}


def stencil_cubic(seed, k, eps, zmask, container='list'):
    """get_hess on a random cubic polynomial.  A difference quotient whose truncation error is O(eps^2) is exact for cubics
    (the error terms start at fourth derivatives), so every element H[i][j] whose two parameters are of ordinary size -- the
    elements for which the statement promises O(eps^2) -- must equal the exact second derivative up to round-off, whatever
    the other parameters are (zero, tiny, negative).  Elements that involve a zero / tiny parameter use one-sided
    stencils, which are first order: for those only |error| <= 4 * h * (sum of |third derivatives|) is required."""
    from dadi import Godambe
    A, b, c = _quad(seed, k)
    rs = np.random.RandomState(seed + 991)
    C3 = rs.uniform(-1, 1, size=(k, k, k))
    C3 = sum(np.transpose(C3, perm) for perm in ((0, 1, 2), (0, 2, 1), (1, 0, 2), (1, 2, 0), (2, 0, 1), (2, 1, 0))) / 6.0
    p0 = _p0(seed, k, eps, zmask, container.startswith('int'))
    pts_seen = []

    def f(p):
        p = np.array(p, dtype=float)
        pts_seen.append(p)
        return float(0.5 * np.dot(p, np.dot(A, p)) + np.dot(b, p) + c + np.einsum('ijk,i,j,k->', C3, p, p, p))
    arg = _contain(p0, container)
    H = Godambe.get_hess(f, arg, eps)
    side = _one_sided_respected(p0, eps, pts_seen)
    if side:
        return {'ok': False, 'what': 'get_hess: ' + side, 'k': k, 'eps': eps, 'p0': p0}
    h, one = _steps(p0, eps)
    want = A + 6.0 * np.einsum('ijk,k->ij', C3, np.array(p0))
    span = np.abs(np.array(p0)) + 2 * np.abs(h)
    fmax = (0.5 * np.dot(span, np.dot(np.abs(A), span)) + np.dot(np.abs(b), span) + abs(c)
            + np.einsum('ijk,i,j,k->', np.abs(C3), span, span, span))
    round_off = 64 * EPSM * fmax / np.outer(np.abs(h), np.abs(h)) + 1e-300
    third = 6.0 * np.abs(C3).sum()
    err = np.abs(H - want)
    worst, bad = 0.0, None
    for i in range(k):
        for j in range(k):
            central = not one[i] and not one[j]
            bound = round_off[i, j] if central else round_off[i, j] + 4.0 * max(abs(h[i]), abs(h[j])) * third
            r = err[i, j] / bound
            if r > worst:
                worst, bad = float(r), (i, j, bool(central))
    return {'ok': bool(worst <= 1.0) and H.shape == (k, k), 'ratio': worst, 'element': bad,
            'what': 'get_hess on a cubic: second-order (exact) where both parameters are of ordinary size, first order elsewhere',
            'k': k, 'eps': eps, 'p0': p0, 'one_sided': one, 'maxerr': float(err.max())}


def stencil_grad(seed, k, eps, zmask, container='list', two_pt=False):
    """get_grad: exact for quadratics where the central difference is used, exact for linear functions under
    one-sided differences.  A function quadratic in the centrally-differenced coordinates and linear in the
    one-sided ones is differentiated exactly by both."""
    from dadi import Godambe
    A, b, c = _quad(seed, k)
    p0 = _p0(seed, k, eps, zmask, container.startswith('int'))
    h, one = _steps(p0, eps)
    for j in range(k):
        if one[j]:
            A[j, j] = 0.0          # linear along one-sided coordinates (cross terms stay: they are linear in p_j)
    pts_seen = []

    def f(p):
        pts_seen.append(np.array(p, dtype=float))
        return float(0.5 * np.dot(p, np.dot(A, p)) + np.dot(b, p) + c)
    arg = _contain(p0, container)
    prev = Godambe.two_pt_deriv_test
    if two_pt:
        # module switch: one-sided components use the three-point formula (exact for quadratics as well)
        Godambe.two_pt_deriv_test = True
    try:
        g = Godambe.get_grad(f, arg, eps)
    finally:
        Godambe.two_pt_deriv_test = prev
    side = _one_sided_respected(p0, eps, pts_seen)
    if side:
        return {'ok': False, 'what': 'get_grad: ' + side, 'k': k, 'eps': eps, 'p0': p0}
    want = np.dot(A, p0) + b
    span = np.abs(np.array(p0)) + 2 * np.abs(h)
    fmax = 0.5 * np.dot(span, np.dot(np.abs(A), span)) + np.dot(np.abs(b), span) + abs(c)
    bound = 64 * EPSM * fmax / np.abs(h) + 1e-300
    err = np.abs(np.asarray(g).reshape(-1) - want)
    r = float((err / bound).max())
    return {'ok': bool(r <= 1.0) and np.shape(g) == (k, 1), 'ratio': r, 'what': 'get_grad exact (central: quadratic, one-sided: linear)', 'k': k,
            'eps': eps, 'p0': p0, 'one_sided': one, 'maxerr': float(err.max())}


# ------------------------------------------------------------------------------------------------
# closed forms for Poisson models linear (affine) in their parameters

class Lin:
    def __init__(self, k, seed, affine, ns, pts=(10,), scales=None):
        self.k, self.seed, self.affine, self.ns = k, seed, affine, tuple(ns)
        c = 1.0 + 0.3 / float(np.sum(pts))
        B = [b * c for b in OPS._basis(self.ns, k + 1, seed)]
        self.B0 = B[0] * (1.0 if affine else 0.0)
        self.B = [b * (1.0 if not scales else float(scales[j])) for j, b in enumerate(B[1:])]
        args = [k, seed, bool(affine)] + ([1.0, [float(x) for x in scales]] if scales else [])
        self.func = OPS.make_fn({'$fn': 'model', 'id': 'linear', 'args': args}, lambda w: w)

    def fold(self):
        """folded data: the likelihood folds the model, and folding is linear, so the closed forms hold with folded basis spectra"""
        import dadi

        def fo(b):
            f = dadi.Spectrum(b, mask_corners=False).fold()
            return np.where(np.ma.getmaskarray(f), 0.0, np.ma.getdata(f))
        self.B0 = fo(self.B0)
        self.B = [fo(b) for b in self.B]

    def unmasked(self, data):
        import dadi
        m = np.ma.getmaskarray(data) | np.ma.getmaskarray(dadi.Spectrum(np.ones_like(self.B0)))
        return ~m

    def M(self, p):
        v = self.B0.copy()
        for j in range(self.k):
            v = v + p[j] * self.B[j]
        return v


def _derivs(lin, q, multinom):
    """M'(q), first derivative arrays A_a, second derivative arrays A_ab (dict) at q"""
    k = lin.k
    if multinom:
        p, th = q[:k], q[k]
        M0 = lin.M(p)
        Mq = th * M0
        A = [th * lin.B[j] for j in range(k)] + [M0]
        A2 = {}
        for j in range(k):
            A2[(j, k)] = A2[(k, j)] = lin.B[j]
        return Mq, A, A2
    return lin.M(q), [lin.B[j] for j in range(k)], {}


def closed_grad_hess(lin, q, D, multinom, a=1.0, log=False, idx=None):
    """analytic gradient (column) and Hessian of ll(a*M'(q), D) w.r.t. q (or log q), restricted to idx"""
    Mq, A, A2 = _derivs(lin, q, multinom)
    n = len(q)
    um = lin.unmasked(D)
    Dd = np.ma.getdata(D)
    w1 = (Dd / Mq - a)[um]
    w2 = (-Dd / Mq ** 2)[um]
    g = np.array([np.sum(w1 * A[i][um]) for i in range(n)])
    Hm = np.zeros((n, n))
    for i in range(n):
        for j in range(n):
            Hm[i, j] = np.sum(w2 * A[i][um] * A[j][um])
            if (i, j) in A2:
                Hm[i, j] += np.sum(w1 * A2[(i, j)][um])
    if log:
        qa = np.array(q, dtype=float)
        Hm = np.outer(qa, qa) * Hm + np.diag(qa * g)
        g = qa * g
    if idx is not None:
        g = g[idx]
        Hm = Hm[np.ix_(idx, idx)]
    return g.reshape(-1, 1), Hm


def closed_all(lin, p0, data, boots, multinom, log=False, nested=None, adjusts=None):
    """H, J, cU, G in closed form (theta-augmented when multinom)"""
    q = list(p0)
    if multinom:
        um = lin.unmasked(data)
        th = np.ma.getdata(data)[um].sum() / lin.M(p0)[um].sum()
        q = q + [th]
    idx = None if nested is None else list(nested)
    g0, Hll = closed_grad_hess(lin, q, data, multinom, 1.0, log, idx)
    H = -Hll
    n = H.shape[0]
    J = np.zeros((n, n))
    cU = np.zeros((n, 1))
    for b, boot in enumerate(boots):
        a = 1.0 if not adjusts else adjusts[b]
        g, _ = closed_grad_hess(lin, q, boot, multinom, a, log, idx)
        J += np.dot(g, g.T)
        cU += g
    if boots:
        J /= len(boots)
        cU /= len(boots)
    return H, J, cU, q


def _ncond(M):
    """condition number after symmetric diagonal scaling (invariant under a change of parameter units): what governs the
    relative error of uncertainties and quadratic forms built from the inverse"""
    d = np.sqrt(np.abs(np.diag(M)))
    if not np.all(d > 0):
        return float('inf')
    return float(np.linalg.cond(M / np.outer(d, d)))


def _relerr(x, y):
    x = np.asarray(x, dtype=float)
    y = np.asarray(y, dtype=float)
    return float(np.max(np.abs(x - y)) / max(np.max(np.abs(y)), 1e-300))


def _gate(R1, R2, Rc, eps, conds, central, R4=None, noise=None):
    """Richardson-type a-posteriori bound: if R(h) = R* + C h^p (p>=1) then |R(h)-R*| <= |R(2h)-R(h)|; allow 2x,
    plus a round-off floor eps_mach*|ll|/h^2 amplified by the conditioning of H and J."""
    scale = max(float(np.max(np.abs(Rc))), 1e-300)
    e1 = float(np.max(np.abs(np.asarray(R1) - Rc)))
    e2 = float(np.max(np.abs(np.asarray(R2) - Rc)))
    delta = float(np.max(np.abs(np.asarray(R2) - np.asarray(R1))))
    if R4 is not None:
        # guard against accidental cancellation between eps and 2*eps: also use the (2*eps, 4*eps) pair
        delta = max(delta, 0.5 * float(np.max(np.abs(np.asarray(R4) - np.asarray(R2)))))
    floor = 1e-12 / eps ** 2 * (1.0 + conds) * scale
    if noise is not None:
        floor = max(floor, 20.0 * noise * (1.0 + conds) * scale)
    bound = 2.0 * delta + floor
    out = {'err': e1, 'err_2eps': e2, 'bound': bound, 'rel': e1 / scale, 'floor': floor}
    ok = e1 <= bound
    # observed order: halving eps must shrink the error (x4 for central stencils, x2 for one-sided)
    if e2 > 50 * floor and e2 > 1e-9 * scale:
        ratio = e1 / e2
        out['order_ratio'] = ratio
        if central and eps <= 0.0101 and ratio > 0.45:    # 0.25 = second order, 0.5 = first order
            ok = False
            out['order_fail'] = True
    return ok, out


def closed_form(fn, k, seed, ns, p0, multinom, eps, dseed, nboot, log=False, nested=None, full=None, adjusts=None, perm=None, pts=(10,),
                pcont='list', dmask=0, bcont='spectrum', acont='list', scales=None, fold=False, zboot=0):
    """fn in FIM, GIM, LRT, Wald, score.  Calls dadi at eps and 2*eps, compares with the closed form."""
    import dadi
    from dadi import Godambe
    lin = Lin(k, seed, multinom, ns, pts, scales)
    func = lin.func
    shape = [n + 1 for n in ns]
    model = lin.M(p0)
    rs = np.random.RandomState(dseed)
    data = dadi.Spectrum(model * (1 + 0.03 * rs.standard_normal(model.shape)).clip(0.3, 3) * (3.0 if multinom else 1.0))
    if dmask:
        # data with masked entries beyond the corners (e.g. untrusted singletons): every sum runs over the jointly unmasked entries
        flat = [i for i in range(1, data.size - 1)]
        for i in [flat[(7 * dseed + 3 * j) % len(flat)] for j in range(dmask)]:
            data.mask.flat[i] = True
    boots = [dadi.Spectrum(model * (1 + 0.25 * np.random.RandomState(dseed * 100 + b).standard_normal(model.shape)).clip(0.2, 4) * (3.0 if multinom else 1.0))
             for b in range(nboot)]
    for b in range(min(zboot, nboot)):
        # a bootstrap replicate without a single SNP (a short chunk set): its Poisson score is -dM/dp, not zero
        boots[(3 * dseed + 5 * b) % nboot] = dadi.Spectrum(np.zeros(model.shape))
    if fold:
        data = data.fold()
        boots = [b.fold() for b in boots]
        lin.fold()
    if perm:
        boots_call = [boots[i] for i in perm]
    else:
        boots_call = list(boots)
    adj_call = None if not adjusts else ([adjusts[i] for i in perm] if perm else list(adjusts))
    if adj_call is not None and acont == 'tuple':
        adj_call = tuple(adj_call)
    if bcont == 'array':
        # bootstraps handed over as plain arrays (the functions wrap them in Spectrum themselves, masking the corners)
        boots_call = [np.array(np.ma.getdata(b)) for b in boots_call]
    elif bcont == 'tuple':
        boots_call = tuple(boots_call)
    pts = list(pts)

    def P0():
        return _contain(p0, pcont)
    held = []

    def call(e):
        pc = P0()
        held.append((pc, _contain(p0, pcont)))
        if fn == 'FIM':
            u, Hh = Godambe.FIM_uncert(func, pts, pc, data, log=log, multinom=multinom, eps=e, return_FIM=True)
            return np.concatenate([np.ravel(u), np.ravel(Hh)])
        if fn == 'GIM':
            u, G, Hh = Godambe.GIM_uncert(func, pts, boots_call, pc, data, log=log, multinom=multinom, eps=e, return_GIM=True,
                                          boot_theta_adjusts=adj_call)
            return np.concatenate([np.ravel(u), np.ravel(G), np.ravel(Hh)])
        if fn == 'LRT':
            return np.array([Godambe.LRT_adjust(func, pts, boots_call, pc, data, list(nested), multinom=multinom, eps=e,
                                                boot_theta_adjusts=adj_call)])
        if fn == 'Wald':
            return np.array(Godambe.Wald_stat(func, pts, boots_call, pc, data, list(nested), list(full), multinom=multinom, eps=e,
                                              adj_and_org=True))
        if fn == 'score':
            return np.array(Godambe.score_stat(func, pts, boots_call, pc, data, list(nested), multinom=multinom, eps=e, adj_and_org=True))
        raise KeyError(fn)
    # dadi is called first (whatever the verdict on well-posedness below, the calls are part of the session's history); an
    # exception counts only if the case is then judged well-posed
    raised = None
    try:
        R1 = call(eps)
        R2 = call(2 * eps)
        R4 = call(4 * eps)
    except Exception as e:
        raised = e
        R1 = R2 = R4 = None
    for pc, orig in held:
        if not np.array_equal(np.asarray(pc), np.asarray(orig)):
            return {'ok': False, 'what': 'closed form %s: the caller\'s parameter vector was modified in place' % fn, 'p0': list(p0),
                    'now': np.asarray(pc).tolist(), 'container': pcont}
    H, J, cU, q = closed_all(lin, p0, data, boots if fn != 'FIM' else [], multinom, log, nested if fn in ('LRT', 'Wald', 'score') else None, adjusts)
    conds = float(np.linalg.cond(H))
    condn = _ncond(H)
    if fn != 'FIM':
        conds += float(np.linalg.cond(J))
        condn += _ncond(J)
    if not np.isfinite(condn) or condn > 1e12:
        # exactly / numerically singular information (e.g. folded data with fewer informative entries than parameters)
        return {'ok': True, 'skipped': 'ill-conditioned closed form (scaled cond %.3g)' % condn, 'what': 'closed form ' + fn}
    if fn == 'FIM':
        Rc = np.concatenate([np.sqrt(np.diag(np.linalg.inv(H))), np.ravel(H)])
    elif fn == 'GIM':
        G = np.dot(np.dot(H, np.linalg.inv(J)), H)
        Rc = np.concatenate([np.sqrt(np.diag(np.linalg.inv(G))), np.ravel(G), np.ravel(H)])
    elif fn == 'LRT':
        Rc = np.array([len(nested) / np.trace(np.dot(J, np.linalg.inv(H)))])
    elif fn == 'Wald':
        G = np.dot(np.dot(H, np.linalg.inv(J)), H)
        fp = np.array(full, dtype=float)
        qn = np.array(q)[list(nested)]
        if len(fp) != len(nested):
            if multinom and len(fp) == len(p0):
                fp = np.concatenate([fp, [q[-1]]])
            fp = fp[list(nested)]
        d = fp - qn
        Rc = np.array([np.dot(np.dot(d, G), d), np.dot(np.dot(d, H), d)])
    else:
        Rc = np.array([np.dot(np.dot(cU.T, np.linalg.inv(J)), cU)[0, 0], np.dot(np.dot(cU.T, np.linalg.inv(H)), cU)[0, 0]])
    qdiff = np.array(q)[list(nested)] if nested is not None and fn in ('LRT', 'Wald', 'score') else np.array(q)
    if log and fn in ('FIM', 'GIM'):
        qdiff = np.log(qdiff)
    central = all((v != 0 and not (v * 2 * eps < 1e-6)) for v in qdiff)
    if condn > 1e6 or not np.all(np.isfinite(Rc)):
        return {'ok': True, 'skipped': 'ill-conditioned closed form (scaled cond %.3g)' % condn, 'what': 'closed form ' + fn}
    # relative nonlinearity of the log-likelihood over the stencil: the step in parameter j changes the model by h_j*dM/dq_j,
    # which must be small against the model itself, or the Taylor expansion behind any O(eps^p) statement has not set in
    Mq, Aq, _ = _derivs(lin, q, multinom)
    um = lin.unmasked(data)
    steps, _one = _steps(list(qdiff), eps)
    sel = list(nested) if (nested is not None and fn in ('LRT', 'Wald', 'score')) else list(range(len(q)))
    rnl = 0.0
    for hj, j in zip(steps, sel):
        dM = np.abs(Aq[j][um]) * (abs(q[j]) if (log and fn in ('FIM', 'GIM')) else 1.0)
        rnl = max(rnl, float(np.max(4 * abs(hj) * dM / np.abs(Mq[um]))))       # 4*h: eps, 2*eps and 4*eps are all evaluated
    trunc = max(10 * eps ** 2, rnl ** 2) if central else max(eps, rnl)
    # round-off of the difference quotients, relative to the (scaled) matrices they fill: every likelihood value carries about
    # eps_mach*|ll|; second differences divide by h_j*h_k, first differences by h_j
    import scipy.special
    Dd = np.ma.getdata(data)
    llmag = float(np.abs(np.sum((-Mq + Dd * np.log(Mq) - scipy.special.gammaln(Dd + 1))[um]))) + float(np.sum(Dd[um]))
    hh = np.abs(np.array(steps, dtype=float))
    dH = np.sqrt(np.abs(np.diag(H)))
    noise = float(np.max(8 * EPSM * llmag / np.outer(hh, hh) / np.outer(dH, dH)))
    if fn != 'FIM':
        dJ = np.sqrt(np.abs(np.diag(J)))
        noise = max(noise, float(np.max(8 * EPSM * llmag / hh / dJ)))
    if noise * condn >= 0.02:
        return {'ok': True, 'skipped': 'round-off dominated (relative noise %.3g x scaled cond %.3g)' % (noise, condn), 'what': 'closed form ' + fn}
    if condn * trunc >= 0.5:
        # the finite-difference result is in its pre-asymptotic regime (conditioning x truncation error >= 1/2): neither
        # the O(eps^p) statement nor any a-posteriori bound says anything here
        return {'ok': True, 'skipped': 'pre-asymptotic (scaled cond %.3g x truncation %.3g)' % (condn, trunc),
                'what': 'closed form ' + fn}
    if raised is not None:
        return {'ok': False, 'what': 'closed form %s: dadi raised %s: %s on a well-posed case' % (fn, type(raised).__name__, raised), 'fn': fn, 'k': k,
                'multinom': multinom, 'log': log, 'eps': eps, 'p0': list(p0), 'nested': nested, 'cond': conds, 'scaled_cond': condn}
    if R1.shape != Rc.shape:
        return {'ok': False, 'what': 'closed form ' + fn, 'shape': [list(R1.shape), list(Rc.shape)]}
    ok, out = _gate(R1, R2, Rc, eps, condn, central, R4, noise)
    # amplification of the stencil's relative truncation error by the conditioning of H and J: the a-posteriori
    # bound and the order test are asymptotic statements, only meaningful while amp << 1
    amp = condn * trunc
    out['amp'] = amp
    if out.get('order_fail') and amp >= 0.02:
        out.pop('order_fail')
        ok = out['err'] <= out['bound']
    if not ok and not out.get('order_fail'):
        # a failure of the bound counts only if it is not a pre-asymptotic artefact: refine the step and demand
        # that the discrepancy persists (a wrong formula does not converge to the closed form; a coarse step does)
        e3 = eps / 3.0
        try:
            Ra, Rb = call(e3), call(2 * e3)
        except Exception as e:
            out.update(ok=False, what='closed form %s: dadi raised %s at the refined step' % (fn, type(e).__name__))
            return out
        ok3, out3 = _gate(Ra, Rb, Rc, e3, condn, central, None, 9 * noise)
        out['refined'] = {'eps': e3, 'err': out3['err'], 'bound': out3['bound']}
        if ok3 or out3['err'] <= 0.5 * out['err']:
            ok = True
            out['pre_asymptotic'] = True
    out.update(ok=bool(ok), what='closed form ' + fn, fn=fn, k=k, multinom=multinom, log=log, eps=eps, p0=list(p0), nested=nested, central=central,
               cond=conds, value=[float(v) for v in R1[:3]], closed=[float(v) for v in Rc[:3]])
    return out


def perm_invariance(fn, k, seed, ns, p0, multinom, eps, dseed, nboot, perm, nested=None, full=None, pts=(10,)):
    """GIM / LRT / Wald / score under a permutation of the bootstraps agree to rounding (amplified by cond J)"""
    import dadi
    from dadi import Godambe
    lin = Lin(k, seed, multinom, ns, pts)
    func = lin.func
    model = lin.M(p0)
    rs = np.random.RandomState(dseed)
    data = dadi.Spectrum(model * (1 + 0.03 * rs.standard_normal(model.shape)).clip(0.3, 3))
    boots = [dadi.Spectrum(model * (1 + 0.25 * np.random.RandomState(dseed * 100 + b).standard_normal(model.shape)).clip(0.2, 4))
             for b in range(nboot)]
    pts = list(pts)

    def call(bs):
        if fn == 'GIM':
            u, G, Hh = Godambe.GIM_uncert(func, pts, bs, list(p0), data, multinom=multinom, eps=eps, return_GIM=True)
            return np.concatenate([np.ravel(u), np.ravel(G)])
        if fn == 'LRT':
            return np.array([Godambe.LRT_adjust(func, pts, bs, list(p0), data, list(nested), multinom=multinom, eps=eps)])
        if fn == 'Wald':
            return np.array(Godambe.Wald_stat(func, pts, bs, list(p0), data, list(nested), list(full), multinom=multinom, eps=eps, adj_and_org=True))
        return np.array(Godambe.score_stat(func, pts, bs, list(p0), data, list(nested), multinom=multinom, eps=eps, adj_and_org=True))
    a = call(list(boots))
    b = call([boots[i] for i in perm])
    H, J, cU, q = closed_all(lin, p0, data, boots, multinom, False, nested if fn != 'GIM' else None)
    cond = float(np.linalg.cond(J)) + float(np.linalg.cond(H))
    if cond > 1e8:
        return {'ok': True, 'skipped': 'ill-conditioned', 'what': 'permutation ' + fn}
    scale = max(float(np.max(np.abs(a))), 1e-300)
    err = float(np.max(np.abs(a - b)))
    bound = 1e-13 * (1 + cond) ** 2 * scale
    return {'ok': bool(err <= bound), 'what': 'bootstrap permutation ' + fn, 'err': err, 'bound': bound, 'cond': cond, 'perm': list(perm)}


def chi2(xs, weights, as_array):
    """sum_chi2_ppf: scalar in -> scalar out, array in -> array out, equals the mixture tail probability"""
    import scipy.stats
    from dadi import Godambe
    if as_array in ('int', 'intlist', 'intarray'):
        xs = [float(int(abs(v)) + 1) for v in xs]
        x_in = int(xs[0]) if as_array == 'int' else ([int(v) for v in xs] if as_array == 'intlist' else np.array([int(v) for v in xs]))
    else:
        x_in = np.array(xs, dtype=float) if as_array == 'array' else (list(xs) if as_array == 'list' else float(xs[0]))
    try:
        got = Godambe.sum_chi2_ppf(x_in, weights=tuple(weights))
    except Exception as e:
        if abs(sum(weights) - 1) > 1e-6 and isinstance(e, ValueError):
            return {'ok': True, 'what': 'sum_chi2_ppf rejects weights not summing to 1'}
        return {'ok': False, 'what': 'sum_chi2_ppf raised %s: %s' % (type(e).__name__, e), 'x': xs, 'as': as_array}
    if abs(sum(weights) - 1) > 1e-6:
        return {'ok': False, 'what': 'sum_chi2_ppf accepted weights summing to %r' % (sum(weights),)}
    xa = np.atleast_1d(np.array(xs if as_array not in ('scalar', 'int') else xs[:1], dtype=float))
    want = np.zeros_like(xa)
    for d, w in enumerate(weights):
        if d == 0:
            want += w * (xa <= 0)        # chi2 with 0 d.o.f. is a point mass at 0: P(X > x) = 0 for x > 0, 1 for x < 0
        else:
            want += w * scipy.stats.chi2.sf(xa, d)
    # dadi's convention at x == 0 (tail probability 1 there) is accepted either way: only x > 0 are drawn
    if as_array in ('scalar', 'int'):
        ok = np.ndim(got) == 0 and abs(float(got) - want[0]) <= 1e-12 + 1e-10 * abs(want[0])
    else:
        ok = np.shape(got) == xa.shape and bool(np.allclose(got, want, rtol=1e-10, atol=1e-12))
    return {'ok': bool(ok), 'what': 'sum_chi2_ppf value/shape', 'x': xs, 'as': as_array, 'got': np.asarray(got).tolist(), 'want': want.tolist()}


def register():
    OPS.reg('C19.stencil_hess', stencil_hess, group='c19')
    OPS.reg('C19.stencil_grad', stencil_grad, group='c19')
    OPS.reg('C19.stencil_cubic', stencil_cubic, group='c19')
    OPS.reg('C19.closed_form', closed_form, group='c19')
    OPS.reg('C19.perm', perm_invariance, group='c19')
    OPS.reg('C19.chi2', chi2, group='c19')
