"""Shared plumbing: process fan-out with hang protection, evidence writer, known-findings file,
replay-file I/O, exit-code discipline (0 held / 1 violation / 2 harness error)."""
import os, sys, json, time, hashlib, faulthandler, traceback, signal
import multiprocessing as _mp
from concurrent.futures import ProcessPoolExecutor, as_completed
from concurrent.futures.process import BrokenProcessPool

VERIF = os.path.dirname(os.path.dirname(os.path.abspath(__file__)))
# VERIF_OUT_DIR: self-tests against mutated scratch trees write their evidence/replays elsewhere
_OUT = os.environ.get('VERIF_OUT_DIR') or VERIF
REPLAY_DIR = os.path.join(_OUT, 'replays')
EVIDENCE_DIR = os.path.join(_OUT, 'evidence')
KNOWN_FILE = os.path.join(VERIF, 'known_findings.txt')


class HarnessFailure(Exception):
    pass


def digest(obj):
    return hashlib.sha256(json.dumps(obj, sort_keys=True, default=_jd).encode()).hexdigest()[:16]


def _jd(o):
    import numpy as np
    if isinstance(o, np.ndarray):
        return o.tolist()
    if isinstance(o, (np.integer,)):
        return int(o)
    if isinstance(o, (np.floating,)):
        return float(o)
    if isinstance(o, (np.bool_,)):
        return bool(o)
    if isinstance(o, (set, frozenset)):
        return sorted(o)
    if isinstance(o, tuple):
        return list(o)
    return repr(o)


def jdump(obj, path):
    tmp = path + '.tmp%d' % os.getpid()
    with open(tmp, 'w') as f:
        json.dump(obj, f, indent=1, sort_keys=True, default=_jd)
    os.replace(tmp, path)


# ---------------------------------------------------------------------------------------------
# fan-out

_WORK_FN = None


def _child_call(args):
    """Each item runs in its own fork of the (pristine) pool worker, so that item i is a pure function of
    (seed, i) and the tree even when the code under test keeps state between calls."""
    idx, item, timeout = args
    import pickle
    r, w = os.pipe()
    pid = os.fork()
    if pid == 0:
        try:
            os.close(r)
            faulthandler.dump_traceback_later(timeout, exit=True)
            try:
                payload = ('ok', _WORK_FN(item))
            except BaseException:
                payload = ('err', traceback.format_exc())
            with os.fdopen(w, 'wb') as f:
                pickle.dump(payload, f, protocol=4)
        finally:
            os._exit(0)
    os.close(w)
    with os.fdopen(r, 'rb') as f:
        data = f.read()
    _, status = os.waitpid(pid, 0)
    if not data:
        raise HarnessFailure('item %r: simulation process died (status %s) or exceeded %ss' % (idx, status, timeout))
    kind, val = pickle.loads(data)
    if kind == 'err':
        raise HarnessFailure('item %r raised inside the harness:\n%s' % (idx, val))
    return idx, val


def nproc_default():
    try:
        return int(os.environ.get('VERIF_NPROC', '0')) or min(16, os.cpu_count() or 1)
    except ValueError:
        return 16


def fan_out(fn, items, nproc=None, item_timeout=120, deadline=None, chunk=1, on_result=None):
    """Run fn(item) for every item in forked workers.  Results are returned in item order and do not
    depend on nproc.  deadline: absolute time.monotonic() after which remaining items are *not started*
    (returned as None); a hung item kills its worker -> HarnessFailure (never a pass)."""
    global _WORK_FN
    nproc = nproc or nproc_default()
    results = [None] * len(items)
    if not items:
        return results
    _WORK_FN = fn
    ctx = _mp.get_context('fork')
    if nproc == 1:
        for i, it in enumerate(items):
            if deadline is not None and time.monotonic() > deadline:
                break
            _, r = _child_call((i, it, item_timeout))
            results[i] = r
            if on_result:
                on_result(i, r)
        return results
    try:
        with ProcessPoolExecutor(max_workers=nproc, mp_context=ctx) as ex:
            pending = {}
            it = iter(enumerate(items))
            exhausted = False

            def submit_more():
                nonlocal exhausted
                while not exhausted and len(pending) < nproc * 3:
                    if deadline is not None and time.monotonic() > deadline:
                        exhausted = True
                        break
                    try:
                        i, item = next(it)
                    except StopIteration:
                        exhausted = True
                        break
                    pending[ex.submit(_child_call, (i, item, item_timeout))] = i
            submit_more()
            while pending:
                done = next(as_completed(list(pending)))
                i = pending.pop(done)
                idx, r = done.result()
                results[idx] = r
                if on_result:
                    on_result(idx, r)
                submit_more()
    except HarnessFailure:
        raise
    except BrokenProcessPool as e:
        raise HarnessFailure('a simulation worker died or hung (per-item timeout %ss): %s' % (item_timeout, e))
    return results


# ---------------------------------------------------------------------------------------------
# known findings

def load_known(prop):
    """Lines:  finding: property=<id> key=<signature> :: <what fails>
               fixed: property=<id> <commit> <what failed>      (suppresses nothing)"""
    out = {}
    if not os.path.exists(KNOWN_FILE):
        return out
    for line in open(KNOWN_FILE):
        line = line.strip()
        if not line.startswith('finding:'):
            continue
        body = line[len('finding:'):].strip()
        head, _, what = body.partition('::')
        toks = dict(t.split('=', 1) for t in head.split() if '=' in t)
        if toks.get('property') == prop and 'key' in toks:
            out[toks['key']] = what.strip()
    return out


# ---------------------------------------------------------------------------------------------
# evidence

def write_evidence(prop, tier, seed, coverage, wall_s, violations, assumptions, extra=None):
    os.makedirs(EVIDENCE_DIR, exist_ok=True)
    ev = {
        'property_id': prop, 'tier': tier, 'seed': int(seed), 'level': 'exploration',
        'coverage': coverage, 'assumptions': assumptions, 'wall_s': round(float(wall_s), 3),
        'violations': int(violations),
    }
    if extra:
        ev.update(extra)
    _validate_evidence(ev)
    jdump(ev, os.path.join(EVIDENCE_DIR, prop + '.json'))
    return ev


def _validate_evidence(ev):
    for k in ('property_id', 'tier', 'seed', 'level', 'coverage', 'wall_s'):
        if k not in ev:
            raise HarnessFailure('evidence lacks ' + k)
    c = ev['coverage']
    if not (isinstance(c.get('evaluations'), int) and c['evaluations'] >= 1):
        raise HarnessFailure('evidence.coverage.evaluations invalid')
    if not (isinstance(c.get('distinct_nontrivial'), int) and c['distinct_nontrivial'] >= 2):
        raise HarnessFailure('evidence.coverage.distinct_nontrivial invalid (%r)' % c.get('distinct_nontrivial'))
    if not isinstance(c.get('rule'), str) or not isinstance(c.get('samples'), list) or not c['samples']:
        raise HarnessFailure('evidence.coverage.rule/samples invalid')
    schema = '/root/.vp/EVIDENCE.schema.json'
    try:
        import jsonschema  # not in /venv; present in python3-vt
        jsonschema.validate(json.loads(json.dumps(ev, default=_jd)), json.load(open(schema)))
    except ImportError:
        pass


# ---------------------------------------------------------------------------------------------
# replay files

def write_replay(prop, name, obj):
    os.makedirs(REPLAY_DIR, exist_ok=True)
    path = os.path.join(REPLAY_DIR, '%s-%s.json' % (prop, name))
    jdump(obj, path)
    return path


def read_replay(path):
    with open(path) as f:
        return json.load(f)


class Timer:
    def __init__(self):
        self.t0 = time.monotonic()

    def __call__(self):
        return time.monotonic() - self.t0
