"""Simulated `multiprocessing` for engine A: Manager / Queue(maxsize) / ListProxy / Process on top of
sched.Sim.  Transport pickles on the way in and unpickles on the way out (the real wire format);
Process.start() gives the child deep copies of the bound `self` and of every argument except the
proxies (fork semantics); an exception escaping a child ends it with exit code 1 and is not
propagated; join() returns normally."""
import copy, pickle, collections, multiprocessing, queue as _queue

from .sched import HarnessError, SimAbort


class SimProxyBase:
    _sim_proxy = True

    def __deepcopy__(self, memo):   # channels are shared, not copied
        return self

    def __reduce__(self):           # a proxy travelling through a proxy: keep identity
        raise HarnessError('pickling a manager proxy is not simulated')


class SimQueue(SimProxyBase):
    def __init__(self, env, maxsize=0):
        self.env, self.maxsize = env, maxsize
        self.items = collections.deque()
        self.puts = self.gets = 0
        self.max_depth = 0
        self.blocked_puts = 0

    def _alive(self):
        if self.env.manager_closed:
            raise ConnectionRefusedError('simulated manager has shut down')

    def put(self, item, block=True, timeout=None):
        self._alive()
        data = pickle.dumps(item, protocol=pickle.HIGHEST_PROTOCOL)
        sim = self.env.sim
        full = lambda: self.maxsize > 0 and len(self.items) >= self.maxsize
        if full():
            self.blocked_puts += 1
            sim.count('put_blocked_on_full_queue')
            if not block:
                raise _queue.Full
        ok = sim.seam('queue.put', cond=lambda: not full() or self.env.manager_closed, timeout=timeout)
        if not ok and full():
            raise _queue.Full
        if self.env.manager_closed:
            raise EOFError('simulated manager has shut down')     # what a blocked proxy call sees when the server goes away
        self.items.append(data)
        self.puts += 1
        self.max_depth = max(self.max_depth, len(self.items))
        sim.trace.append(('put', sim.current.tid, self.puts))

    def put_nowait(self, item):
        return self.put(item, block=False)

    def get(self, block=True, timeout=None):
        self._alive()
        sim = self.env.sim
        if not self.items:
            sim.count('get_blocked_on_empty_queue')
            if not block:
                raise _queue.Empty
        ok = sim.seam('queue.get', cond=lambda: len(self.items) > 0 or self.env.manager_closed, timeout=timeout)
        if not ok and not self.items:
            raise _queue.Empty
        if not self.items and self.env.manager_closed:
            raise EOFError('simulated manager has shut down')
        data = self.items.popleft()
        self.gets += 1
        item = pickle.loads(data)
        sim.trace.append(('get', sim.current.tid, self.gets, _brief(item)))
        return item

    def get_nowait(self):
        return self.get(block=False)

    def qsize(self):
        return len(self.items)

    def empty(self):
        return not self.items

    def full(self):
        return self.maxsize > 0 and len(self.items) >= self.maxsize


def _brief(item):
    if item is None:
        return None
    if isinstance(item, tuple):
        return tuple(x if isinstance(x, (int, float)) else type(x).__name__ for x in item)
    return type(item).__name__


class SimList(SimProxyBase):
    def __init__(self, env, init=()):
        self.env = env
        self.data = [pickle.dumps(x, protocol=pickle.HIGHEST_PROTOCOL) for x in init]

    def _alive(self):
        if self.env.manager_closed:
            raise ConnectionRefusedError('simulated manager has shut down')

    def append(self, item):
        self._alive()
        data = pickle.dumps(item, protocol=pickle.HIGHEST_PROTOCOL)
        sim = self.env.sim
        sim.seam('list.append')
        self.data.append(data)
        sim.trace.append(('append', sim.current.tid, _brief(item)))

    def extend(self, items):
        for it in items:
            self.append(it)

    def _snapshot(self):
        self._alive()
        self.env.sim.seam('list.read')
        return [pickle.loads(d) for d in self.data]

    def __iter__(self):
        return iter(self._snapshot())

    def __len__(self):
        self._alive()
        return len(self.data)

    def __getitem__(self, i):
        return self._snapshot()[i]

    def __setitem__(self, i, v):
        self._alive()
        d = pickle.dumps(v, protocol=pickle.HIGHEST_PROTOCOL)
        self.env.sim.seam('list.setitem')
        self.data[i] = d

    def _getvalue(self):
        return self._snapshot()

    def __contains__(self, x):
        return x in self._snapshot()

    def pop(self, i=-1):
        self._alive()
        self.env.sim.seam('list.pop')
        return pickle.loads(self.data.pop(i))

    def sort(self, **kw):
        raise HarnessError('ListProxy.sort not simulated')


class SimDict(SimProxyBase):
    def __init__(self, env):
        self.env = env
        self.data = {}

    def __setitem__(self, k, v):
        d = pickle.dumps(v, protocol=pickle.HIGHEST_PROTOCOL)
        self.env.sim.seam('dict.setitem')
        self.data[pickle.loads(pickle.dumps(k))] = d

    def __getitem__(self, k):
        self.env.sim.seam('dict.getitem')
        return pickle.loads(self.data[k])

    def __len__(self):
        return len(self.data)

    def __contains__(self, k):
        return k in self.data

    def keys(self):
        self.env.sim.seam('dict.keys')
        return list(self.data.keys())

    def items(self):
        self.env.sim.seam('dict.items')
        return [(k, pickle.loads(v)) for k, v in self.data.items()]

    def values(self):
        self.env.sim.seam('dict.values')
        return [pickle.loads(v) for v in self.data.values()]

    def __iter__(self):
        return iter(self.keys())


class SimLock(SimProxyBase):
    def __init__(self, env, reentrant=False):
        self.env, self.reentrant = env, reentrant
        self.owner = None
        self.depth = 0

    def acquire(self, blocking=True, timeout=None):
        sim = self.env.sim
        me = sim.current.tid
        if self.reentrant and self.owner == me:
            self.depth += 1
            return True
        if self.owner is not None and not blocking:
            return False
        sim.seam('lock.acquire', cond=lambda: self.owner is None)
        self.owner = me
        self.depth = 1
        return True

    def release(self):
        self.depth -= 1
        if self.depth <= 0:
            self.owner = None
            self.depth = 0
        self.env.sim.seam('lock.release')

    def __enter__(self):
        self.acquire()
        return self

    def __exit__(self, *a):
        self.release()
        return False


class SimEvent(SimProxyBase):
    def __init__(self, env):
        self.env = env
        self.flag = False

    def set(self):
        self.env.sim.seam('event.set')
        self.flag = True

    def clear(self):
        self.env.sim.seam('event.clear')
        self.flag = False

    def is_set(self):
        self.env.sim.seam('event.is_set')
        return self.flag

    def wait(self, timeout=None):
        self.env.sim.seam('event.wait', cond=lambda: self.flag or self.env.manager_closed, timeout=timeout)
        return self.flag


class SimValue(SimProxyBase):
    def __init__(self, env, typecode, value=0, lock=True):
        object.__setattr__(self, 'env', env)
        object.__setattr__(self, '_v', value)
        object.__setattr__(self, '_lock', SimLock(env, True))

    def _get(self):
        self.env.sim.seam('value.get')
        return self._v

    def _set(self, v):
        self.env.sim.seam('value.set')
        object.__setattr__(self, '_v', v)
    value = property(_get, _set)

    def get(self):
        return self._get()

    def set(self, v):
        self._set(v)

    def get_lock(self):
        return self._lock


class SimNamespace(SimProxyBase):
    def __init__(self, env):
        object.__setattr__(self, 'env', env)
        object.__setattr__(self, '_d', {})

    def __getattr__(self, k):
        if k.startswith('_'):
            raise AttributeError(k)
        self.env.sim.seam('namespace.get')
        try:
            return pickle.loads(self._d[k])
        except KeyError:
            raise AttributeError(k)

    def __setattr__(self, k, v):
        d = pickle.dumps(v, protocol=pickle.HIGHEST_PROTOCOL)
        self.env.sim.seam('namespace.set')
        self._d[k] = d


class SimManager:
    def __init__(self, env):
        self.env = env

    def __enter__(self):
        self.env.sim.seam('manager.start', cost=1e-2)
        self.env.manager_closed = False
        return self

    def __exit__(self, *a):
        try:
            self.env.sim.seam('manager.shutdown', cost=1e-2)
        except SimAbort:
            raise
        self.env.manager_closed = True
        return False

    def start(self):
        self.env.manager_closed = False

    def shutdown(self):
        self.env.manager_closed = True

    def Queue(self, maxsize=0):
        q = SimQueue(self.env, maxsize)
        self.env.queues.append(q)
        return q

    JoinableQueue = Queue

    def list(self, init=()):
        l = SimList(self.env, init)
        self.env.lists.append(l)
        return l

    def dict(self, *a, **k):
        d = SimDict(self.env)
        for kk, vv in dict(*a, **k).items():
            d.data[kk] = pickle.dumps(vv, protocol=pickle.HIGHEST_PROTOCOL)
        return d

    def Value(self, typecode, value=0, lock=True):
        return SimValue(self.env, typecode, value)

    def Lock(self):
        return SimLock(self.env)

    def RLock(self):
        return SimLock(self.env, True)

    def Event(self):
        return SimEvent(self.env)

    def Namespace(self):
        return SimNamespace(self.env)


class SimProcess:
    def __init__(self, env, group=None, target=None, name=None, args=(), kwargs=None, daemon=None):
        self.env, self.target, self.args, self.kwargs = env, target, tuple(args), dict(kwargs or {})
        self.task = None
        self.daemon = daemon
        self.name = name or 'Process-%d' % (len(env.procs) + 1)
        env.procs.append(self)

    def start(self):
        env, sim = self.env, self.env.sim
        sim.seam('process.start', cost=env.start_cost)
        nth = len([p for p in env.procs if p.task is not None])
        if env.start_fault is not None and nth == env.start_fault:
            env.start_fault_fired = True
            sim.count('fault_F6start')
            sim.trace.append(('fault', 'F6start', nth))
            raise OSError(11, 'Resource temporarily unavailable (injected: fork failed)')
        # fork semantics: the child gets a copy of memory, shares only the channels
        target, args, kwargs = self.target, self.args, self.kwargs
        memo = {}
        bound_self = getattr(target, '__self__', None)
        if bound_self is not None and not isinstance(bound_self, type):
            child_self = copy.deepcopy(bound_self, memo)
            target = getattr(child_self, target.__name__)
        args = copy.deepcopy(args, memo)
        kwargs = copy.deepcopy(kwargs, memo)
        if env.spawn_variant:
            # "spawn" start method: arguments additionally travel through pickle
            plain = [a for a in args if not getattr(a, '_sim_proxy', False) and not callable(a)]
            pickle.loads(pickle.dumps(plain))
        idx = len([p for p in env.procs if p.task is not None])

        def body():
            hook = env.on_child_start
            if hook is not None:
                hook(idx)
            return target(*args, **kwargs)
        self.task = sim.spawn(self.name, body, start_clock=sim.current.clock)
        self.task.speed = env.speed_of(idx)
        self.task.worker_index = idx
        sim.trace.append(('start', idx))

    def join(self, timeout=None):
        if self.task is None:
            raise AssertionError('can only join a started process')
        t = self.task
        self.env.sim.seam('process.join', cond=lambda: t.done, timeout=timeout)

    def is_alive(self):
        return self.task is not None and not self.task.done

    @property
    def exitcode(self):
        return None if self.task is None or not self.task.done else self.task.exitcode

    def terminate(self):
        t = self.task
        if t is not None and not t.done:
            # the simulated process is gone; its (parked) thread is abandoned
            t.killed = True
            t.done = True
            t.exitcode = -15
            t.blocked_on = None
            t.cond = lambda: False

    kill = terminate

    def close(self):
        pass


class _Plain:
    """environment of non-manager primitives (multiprocessing.Queue etc.): never shut down"""
    manager_closed = False

    def __init__(self, env):
        self.sim = env.sim


class SimAsyncResult:
    def __init__(self, pool, n=1, single=True):
        self.pool, self.single = pool, single
        self.slots = [None] * n
        self.left = n

    def ready(self):
        return self.left == 0

    def successful(self):
        if self.left:
            raise ValueError('not ready')
        return all(s[0] for s in self.slots)

    def wait(self, timeout=None):
        self.pool.env.sim.seam('pool.wait', cond=lambda: self.left == 0 or self.pool.dead())

    def get(self, timeout=None):
        ok = self.pool.env.sim.seam('pool.result.get', cond=lambda: self.left == 0 or self.pool.dead(), timeout=timeout)
        if not ok and self.left:
            raise multiprocessing.TimeoutError()
        if self.left:
            raise HarnessError('pool terminated with results outstanding (a real Pool would block here)')
        out = []
        for ok, data in self.slots:
            v = pickle.loads(data)
            if not ok:
                raise v
            out.append(v)
        return out[0] if self.single else out


class SimPool:
    """multiprocessing.Pool on the simulator: worker tasks pull (func, args) items from an unbounded internal queue;
    results and exceptions travel back pickled; imap_unordered yields in completion order (schedule dependent)."""

    def __init__(self, env, processes=None, initializer=None, initargs=(), maxtasksperchild=None):
        self.env = env
        self.n = processes or env.cpu_count
        self.tasks = collections.deque()
        self.closed = False
        self.terminated = False
        self.workers = []
        self.done_order = []
        env.sim.seam('pool.start', cost=env.start_cost)
        for i in range(self.n):
            t = env.sim.spawn('PoolWorker-%d' % (i + 1), self._worker(i, initializer, initargs), start_clock=env.sim.current.clock)
            t.speed = env.speed_of(i)
            t.worker_index = i
            self.workers.append(t)

    def dead(self):
        return self.terminated or all(w.done for w in self.workers)

    def _worker(self, i, initializer, initargs):
        def body():
            sim = self.env.sim
            if initializer is not None:
                initializer(*initargs)
            while True:
                sim.seam('pool.task.get', cond=lambda: bool(self.tasks) or self.closed or self.terminated)
                if self.terminated or (not self.tasks and self.closed):
                    return
                func, args, res, slot = self.tasks.popleft()
                sim.trace.append(('get', sim.current.tid, len(self.done_order), ('task', slot)))
                try:
                    val = func(*args)
                    payload = (True, pickle.dumps(val, protocol=pickle.HIGHEST_PROTOCOL))
                except Exception as e:        # Pool catches Exception in the worker and re-raises it in the parent
                    try:
                        payload = (False, pickle.dumps(e, protocol=pickle.HIGHEST_PROTOCOL))
                    except Exception as e2:
                        payload = (False, pickle.dumps(RuntimeError('unpicklable exception: %r' % (e,))))
                sim.seam('pool.result.put')
                res.slots[slot] = payload
                res.left -= 1
                self.done_order.append(slot)
                sim.trace.append(('append', sim.current.tid, ('task', slot)))
        return body

    def _submit(self, func, arglist, single):
        if self.closed or self.terminated:
            raise ValueError('Pool not running')
        res = SimAsyncResult(self, len(arglist), single)
        memo = {}
        bound_self = getattr(func, '__self__', None)
        if bound_self is not None and not isinstance(bound_self, type):
            func = getattr(copy.deepcopy(bound_self, memo), func.__name__)      # the task is pickled: the child works on a copy
        self.env.sim.seam('pool.submit')
        for slot, a in enumerate(arglist):
            self.tasks.append((func, copy.deepcopy(tuple(a), memo), res, slot))
        return res

    def apply_async(self, func, args=(), kwds=None, callback=None, error_callback=None):
        if kwds:
            f0 = func
            func = lambda *a: f0(*a, **kwds)
        return self._submit(func, [tuple(args)], True)

    def apply(self, func, args=(), kwds=None):
        return self.apply_async(func, args, kwds).get()

    def map_async(self, func, iterable, chunksize=None, callback=None, error_callback=None):
        return self._submit(func, [(x,) for x in iterable], False)

    def map(self, func, iterable, chunksize=None):
        return self.map_async(func, iterable).get()

    def starmap_async(self, func, iterable, chunksize=None, callback=None, error_callback=None):
        return self._submit(func, [tuple(x) for x in iterable], False)

    def starmap(self, func, iterable, chunksize=None):
        return self.starmap_async(func, iterable).get()

    def imap(self, func, iterable, chunksize=1):
        res = self._submit(func, [(x,) for x in iterable], False)
        sim = self.env.sim

        def gen():
            for i in range(len(res.slots)):
                sim.seam('pool.imap.next', cond=lambda i=i: res.slots[i] is not None or self.dead())
                if res.slots[i] is None:
                    raise HarnessError('pool terminated with results outstanding')
                ok, data = res.slots[i]
                v = pickle.loads(data)
                if not ok:
                    raise v
                yield v
        return gen()

    def imap_unordered(self, func, iterable, chunksize=1):
        res = self._submit(func, [(x,) for x in iterable], False)
        sim = self.env.sim
        start = len(self.done_order)
        mine = []

        def gen():
            seen = 0
            pos = start
            while seen < len(res.slots):
                sim.seam('pool.imap_unordered.next', cond=lambda: len(self.done_order) > pos or self.dead())
                if len(self.done_order) <= pos:
                    raise HarnessError('pool terminated with results outstanding')
                # results of other submissions may be interleaved in done_order: skip those that are not ours
                slot = self.done_order[pos]
                pos += 1
                if res.slots[slot] is None or (slot, id(res)) in mine:
                    continue
                mine.append((slot, id(res)))
                seen += 1
                ok, data = res.slots[slot]
                v = pickle.loads(data)
                if not ok:
                    raise v
                yield v
        g = gen()

        class It:
            def __iter__(s2):
                return s2

            def __next__(s2):
                nonlocal pos_holder
                return next(g)
        pos_holder = None
        return It()

    def close(self):
        self.closed = True

    def terminate(self):
        self.terminated = True

    def join(self):
        if not (self.closed or self.terminated):
            raise ValueError('Pool is still running')
        self.env.sim.seam('pool.join', cond=lambda: all(w.done for w in self.workers))

    def __enter__(self):
        return self

    def __exit__(self, *a):
        self.terminate()
        return False


class Env:
    """One simulated machine: patches the `multiprocessing` module attributes dadi imports
    (`from multiprocessing import Manager, Process[, cpu_count]` inside the function body)."""

    def __init__(self, sim, cpu_count=4, speeds=None, spawn_variant=False, start_cost=1e-3):
        self.sim = sim
        self.cpu_count = cpu_count
        self.speeds = speeds or {}
        self.spawn_variant = spawn_variant
        self.start_cost = start_cost
        self.manager_closed = True
        self.queues, self.lists, self.procs = [], [], []
        self.on_child_start = None
        self.start_fault = None
        self.start_fault_fired = False
        self._saved = {}

    def speed_of(self, idx):
        return self.speeds.get(idx, 1.0)

    def _reg_queue(self, q):
        self.queues.append(q)
        return q

    def _unsimulated(self, name):
        def f(*a, **k):
            raise HarnessError('multiprocessing.%s is not simulated by this harness' % name)
        return f

    def __enter__(self):
        mpm = multiprocessing
        repl = {
            'Manager': lambda *a, **k: SimManager(self),
            'Process': lambda *a, **k: SimProcess(self, *a, **k),
            'cpu_count': lambda: self.cpu_count,
        }
        plain = _Plain(self)
        repl['Pool'] = lambda *a, **k: SimPool(self, *a, **k)
        repl['Queue'] = lambda maxsize=0, **k: self._reg_queue(SimQueue(plain, maxsize))
        repl['SimpleQueue'] = lambda **k: self._reg_queue(SimQueue(plain, 0))
        repl['Lock'] = lambda: SimLock(plain)
        repl['RLock'] = lambda: SimLock(plain, True)
        repl['Event'] = lambda: SimEvent(plain)
        repl['Value'] = lambda typecode, value=0, lock=True: SimValue(plain, typecode, value)
        repl['active_children'] = lambda: [p for p in self.procs if p.is_alive()]

        def _current_process():
            import types
            t = self.sim.current
            if t is None:
                return self._saved['current_process']()
            return types.SimpleNamespace(name='MainProcess' if t.tid == 0 else t.name, pid=40000 + t.tid, _identity=() if t.tid == 0 else (t.tid,),
                                         daemon=False, exitcode=None, ident=40000 + t.tid)
        repl['current_process'] = _current_process
        for name in ('JoinableQueue', 'Pipe', 'Array', 'get_context', 'Semaphore', 'Barrier'):
            repl[name] = self._unsimulated(name)
        # sleeping inside a simulated process passes simulated time and is a pre-emption point
        import time as _time
        self._real_sleep = _time.sleep

        def _sleep(d):
            sim = self.sim
            import threading
            if sim.current is not None and threading.current_thread() is sim.current.thread:
                sim.seam('sleep', cost=max(float(d), 0.0))
            else:
                self._real_sleep(d)
        _time.sleep = _sleep
        for k, v in repl.items():
            self._saved[k] = getattr(mpm, k)
            setattr(mpm, k, v)
        return self

    def __exit__(self, *a):
        for k, v in self._saved.items():
            setattr(multiprocessing, k, v)
        import time as _time
        _time.sleep = self._real_sleep
        return False
