"""Engine B op catalogue: the public dadi calls a client program is made of (DESIGN.md appendix B).
Each op: callable, the set of argument positions documented as modified in place (snapshot oracle
skipped for those only), `fresh` (result must not share memory with any argument), `no_compare`
(contract is to consume the global RNG / interference ops), seed_rng (simulator sets the global RNG
state immediately before the call, in session and reference alike)."""
import gc, math, random
import numpy as np


class OpDef:
    __slots__ = ('name', 'fn', 'inplace', 'fresh', 'no_compare', 'seed_rng', 'group')

    def __init__(self, name, fn, inplace=(), fresh=False, no_compare=False, seed_rng=None, group=''):
        self.name, self.fn, self.inplace = name, fn, set(inplace)
        self.fresh, self.no_compare, self.seed_rng, self.group = fresh, no_compare, seed_rng, group


OPS = {}
_loaded = False
# ops whose documented contract is to return a view of their argument
# (PhiManip.reorder_pops: "views are its contract"), or that inherit numpy's own aliasing: a transpose is a view, basic slicing
# is a view, and numpy.ma unary ufuncs (-a, abs(a)) share the operand's mask -- plain numpy.ma behaves the same (verified)
VIEW_OPS = {'phi_reorder_pops', 'S.reorder_pops', 'S.getitem', 'S.neg'}


def reg(name, fn, **kw):
    OPS[name] = OpDef(name, fn, **kw)


def warm_imports():
    _load()


# ------------------------------------------------------------------------------------------------
# function factories (arguments that are callables)

def make_fn(v, res):
    kind = v['$fn']
    if kind == 'const':
        c = v['v']
        return lambda t: c
    if kind == 'ramp':
        a, b = v['a'], v['b']
        return lambda t: a + b * t
    if kind == 'exp':
        a, b, T = v['a'], v['b'], v['T']
        return lambda t: a * (b / a) ** (t / T)
    if kind == 'model':
        # one function object per (model id, args) per interpreter, like a module-level def the user reuses: this is
        # what makes a cache keyed on (function, params, pts) without ns, or without pts, actually collide
        key = repr((v['id'], v.get('args', [])))
        if key not in _MODEL_MEMO:
            _MODEL_MEMO[key] = MODELS[v['id']](*[res(x) for x in v.get('args', [])])
        return _MODEL_MEMO[key]
    raise KeyError(kind)


MODELS = {}
_MODEL_MEMO = {}


def model(name):
    def deco(f):
        MODELS[name] = f
        return f
    return deco


def _basis(ns, k, seed):
    """k positive basis spectra of shape ns+1, deterministic: well separated bumps along the total derived-allele
    frequency (so that linear models built from them are well conditioned) plus a seed-dependent ripple"""
    shape = tuple(n + 1 for n in ns)
    idx = np.indices(shape).astype(float)
    t = sum(idx[d] / float(ns[d]) for d in range(len(ns))) / len(ns)          # in [0, 1]
    out = []
    for j in range(k):
        c = (j + 0.5) / k
        w = 0.6 / k
        out.append(0.15 + np.exp(-((t - c) / w) ** 2) + 0.05 * np.cos(7.0 * t + 0.9 * seed + j) ** 2
                   + 0.05 * idx[j % len(ns)] / float(ns[j % len(ns)]))
    return out


@model('linear')
def _m_linear(k, seed, affine, offset=1.0, scales=None):
    """Poisson model linear (affine) in its k parameters: M(p) = [offset*B0 +] sum p_j B_j."""
    import dadi

    def f(params, ns, pts):
        B = _basis(tuple(ns), k + 1, seed)
        val = B[0] * (float(offset) if affine else 0.0)
        for j in range(k):
            val = val + params[j] * B[j + 1] * (1.0 if not scales else float(scales[j]))
        val = val * (1.0 + 0.3 / float(np.sum(pts)))      # depends on the grid setting, as real models do
        return dadi.Spectrum(val)
    f.__name__ = 'linear_k%d_s%d_%s' % (k, seed, 'aff' if affine else 'lin')
    return f


@model('two_epoch')
def _m_two_epoch():
    import dadi
    return dadi.Numerics.make_extrap_func(dadi.Demographics1D.two_epoch)


@model('growth')
def _m_growth():
    import dadi
    return dadi.Numerics.make_extrap_func(dadi.Demographics1D.growth)


@model('split_mig')
def _m_split_mig():
    import dadi
    return dadi.Numerics.make_extrap_func(dadi.Demographics2D.split_mig)


@model('lib')
def _m_lib(mod, name):
    """library model through make_extrap_func"""
    import dadi
    return dadi.Numerics.make_extrap_func(getattr(getattr(dadi, mod), name))


@model('two_epoch_kw')
def _m_two_epoch_kw():
    """a user model with extra positional and keyword arguments (func_args / func_kwargs of the optimisers)"""
    import dadi
    ex = dadi.Numerics.make_extrap_func(dadi.Demographics1D.two_epoch)

    def two_epoch_kw(params, ns, offset=0.0, pts=None, scale=1.0):
        return ex([params[0] + offset, params[1]], ns, pts) * scale
    return two_epoch_kw


@model('growth_raw')
def _m_growth_raw():
    import dadi
    return dadi.Demographics1D.growth


@model('two_epoch_raw')
def _m_two_epoch_raw():
    import dadi
    return dadi.Demographics1D.two_epoch


# ------------------------------------------------------------------------------------------------
# cache probes: counting dicts substituted for dadi's module-level memo dictionaries (no repo hook:
# the functions look the global up by name at call time)

class CountingDict(dict):
    __slots__ = ('_name', '_c')

    def __contains__(self, k):
        r = dict.__contains__(self, k)
        if r:
            self._c.hits[self._name] = self._c.hits.get(self._name, 0) + 1
        return r

    def __getitem__(self, k):
        try:
            v = dict.__getitem__(self, k)
        except KeyError:
            raise
        self._c.hits[self._name + '.get'] = self._c.hits.get(self._name + '.get', 0) + 1
        return v


class Counters:
    def __init__(self):
        self.hits = {}


def install_cache_probes():
    import dadi
    from dadi import Numerics, Spectrum_mod, Godambe
    c = Counters()
    for mod, names in ((Numerics, ['_multinomln_cache', '_BetaBinomln_cache', '_part_cache', '_part_precalc_cache', '_projection_cache']),
                       (Spectrum_mod, ['_dbeta_cache']), (Godambe, ['cache'])):
        for n in names:
            old = getattr(mod, n, None)
            if isinstance(old, dict) and not isinstance(old, CountingDict):
                d = CountingDict(old)
                d._name, d._c = n, c
                setattr(mod, n, d)
    return c


# ------------------------------------------------------------------------------------------------

def _mk_spectrum(seed, shape, maskfrac=0.0, folded=False, pop_ids=None, scale=10.0, integer=False, corners=True):
    import dadi
    rs = np.random.RandomState(seed)
    data = rs.gamma(1.5, scale, size=tuple(shape))
    if integer:
        data = np.floor(data)
    mask = rs.random_sample(tuple(shape)) < maskfrac
    fs = dadi.Spectrum(data, mask=mask, pop_ids=pop_ids, mask_corners=bool(corners))
    if folded:
        fs = fs.fold()
    return fs


def _tmp(suffix):
    import os, tempfile
    d = '/dev/shm' if os.path.isdir('/dev/shm') else tempfile.gettempdir()
    return os.path.join(d, 'verif-io-%d-%s' % (os.getpid(), suffix))


def _fs_roundtrip(fs, precision=16, foldmaskinfo=True):
    """write a spectrum to a file and read it back (the file is private to this process and removed)"""
    import os, dadi
    p = _tmp('fs.fs')
    try:
        fs.to_file(p, precision=precision, foldmaskinfo=foldmaskinfo)
        return dadi.Spectrum.from_file(p)
    finally:
        if os.path.exists(p):
            os.unlink(p)


def _arr_roundtrip(a):
    import os, dadi
    p = _tmp('arr.txt')
    try:
        dadi.Numerics.array_to_file(a, p)
        return dadi.Numerics.array_from_file(p)
    finally:
        if os.path.exists(p):
            os.unlink(p)


def _asetitem(arr, i, v):
    """a caller editing an array it was handed (its own grid, its own density) in place"""
    arr.flat[i % arr.size] = v
    return arr


def _demes_output_twice(pts, f, T1, T2, Nref):
    """a native two-population model with an admixture pulse, then the demes export asked for twice in a row: exporting is
    a read of the recorded event log, so both exports must agree"""
    import dadi
    xx = dadi.Numerics.default_grid(pts)
    phi = dadi.PhiManip.phi_1D(xx)
    phi = dadi.PhiManip.phi_1D_to_2D(xx, phi)
    phi = dadi.Integration.two_pops(phi, xx, T1, 1.0, 2.0, m12=1.0)
    phi = dadi.PhiManip.phi_2D_admix_1_into_2(phi, f, xx, xx)
    phi = dadi.Integration.two_pops(phi, xx, T2, 1.0, 2.0)
    g1 = dadi.Demes.output(Nref=Nref)
    g2 = dadi.Demes.output(Nref=Nref)
    d1, d2 = g1.asdict(), g2.asdict()
    return {'ok': d1 == d2, 'what': 'Demes.output twice in a row', 'n_demes': len(d1.get('demes', [])), 'n_pulses': len(d1.get('pulses', []))}


def _grid_cumsum(pts):
    """a user-built grid: cumulative sum of spacings (end point differs from 1 in the last bits, as such grids do)"""
    import dadi
    xx = dadi.Numerics.default_grid(pts)
    d = np.diff(xx)
    g = np.concatenate(([0.0], np.cumsum(d * (1 - 3e-16))))
    return g


def _mask_entry(fs, i):
    """user code masking one entry of its own spectrum in place"""
    idx = np.unravel_index(i % fs.size, fs.shape)
    fs[idx] = np.ma.masked
    return fs


def _setitem(fs, i, v):
    idx = np.unravel_index(i % fs.size, fs.shape)
    fs[idx] = v
    return fs


def _churn(n, seed):
    """E1: create and free function objects / closures so that per-call closures land on recycled addresses"""
    gc.collect()
    junk = []
    for i in range(n):
        def mk(j):
            def inner(p, ns, pts):
                return j
            return inner
        junk.append(mk(i))
        junk.append(lambda p, ns, pts: p)
    ids = [id(x) for x in junk]
    del junk
    gc.collect()
    return len(ids)


def _load():
    global _loaded
    if _loaded:
        return
    _loaded = True
    import dadi
    from dadi import Numerics, PhiManip, Integration, Inference, Misc, Godambe, Spectrum
    S = dadi.Spectrum

    # ---- grids
    reg('grid', Numerics.default_grid, group='grid')
    reg('grid_exp', lambda pts, crwd=8.0: Numerics.exponential_grid(pts, crwd), group='grid')
    reg('grid_cumsum', _grid_cumsum, group='grid')
    reg('grid_quadratic', Numerics.quadratic_grid, group='grid')
    reg('estimate_best_exp_grid_crwd', Numerics.estimate_best_exp_grid_crwd, group='grid')
    reg('end_point_first_derivs', Numerics.end_point_first_derivs, group='numerics')
    reg('misid_call', lambda f, params, ns, pts: Numerics.make_anc_state_misid_func(f)(params, ns, pts), group='numerics')
    reg('S.file_roundtrip', _fs_roundtrip, group='spectrum')
    reg('array_file_roundtrip', _arr_roundtrip, group='numerics')
    # ---- synthetic inputs
    reg('mk_spectrum', _mk_spectrum, group='make')
    reg('mk_array', lambda seed, shape, scale=1.0: np.random.RandomState(seed).random_sample(tuple(shape)) * scale, group='make')
    # ---- equilibrium
    reg('phi_1D', PhiManip.phi_1D, group='phi')
    reg('phi_1D_genic', PhiManip.phi_1D_genic, group='phi')
    reg('phi_1D_snm', PhiManip.phi_1D_snm, group='phi')
    # ---- build
    reg('phi_1D_to_2D', PhiManip.phi_1D_to_2D, group='phi')
    reg('phi_2D_to_3D_split_1', PhiManip.phi_2D_to_3D_split_1, group='phi')
    reg('phi_2D_to_3D_split_2', PhiManip.phi_2D_to_3D_split_2, group='phi')
    reg('phi_2D_to_3D_admix', PhiManip.phi_2D_to_3D_admix, group='phi')
    reg('phi_3D_to_4D', PhiManip.phi_3D_to_4D, group='phi')
    reg('phi_4D_to_5D', PhiManip.phi_4D_to_5D, group='phi')
    reg('phi_remove_pop', PhiManip.remove_pop, group='phi')
    reg('phi_filter_pops', PhiManip.filter_pops, group='phi')
    reg('phi_reorder_pops', PhiManip.reorder_pops, group='phi')     # views are its contract
    # ---- pulses: documented "Alters phi in place"
    for n in ('phi_2D_admix_1_into_2', 'phi_2D_admix_2_into_1', 'phi_3D_admix_1_and_2_into_3', 'phi_3D_admix_1_and_3_into_2',
              'phi_3D_admix_2_and_3_into_1', 'phi_4D_admix_into_1', 'phi_4D_admix_into_2', 'phi_4D_admix_into_3', 'phi_4D_admix_into_4',
              'phi_5D_admix_into_1', 'phi_5D_admix_into_2', 'phi_5D_admix_into_3', 'phi_5D_admix_into_4', 'phi_5D_admix_into_5'):
        reg(n, getattr(PhiManip, n), inplace=(0,), group='pulse')
    # ---- integrate
    for n in ('one_pop', 'two_pops', 'three_pops', 'four_pops', 'five_pops'):
        reg('Integration.' + n, getattr(Integration, n), fresh=True, group='integrate')
    reg('Integration.one_pop_X', Integration.one_pop_X, fresh=True, group='integrate')
    # ---- sample
    reg('from_phi', S.from_phi, group='sample')
    reg('from_phi_inbreeding', S.from_phi_inbreeding, group='sample')
    # ---- spectrum
    reg('S.project', lambda fs, ns: fs.project(ns), group='spectrum')
    reg('S.fold', lambda fs: fs.fold(), group='spectrum')
    reg('S.unfold', lambda fs: fs.unfold(), group='spectrum')
    reg('S.marginalize', lambda fs, over, mask_corners=True: fs.marginalize(over, mask_corners), group='spectrum')
    reg('S.filter_pops', lambda fs, tokeep, mask_corners=True: fs.filter_pops(tokeep, mask_corners), group='spectrum')
    reg('S.reorder_pops', lambda fs, order: fs.reorder_pops(order), group='spectrum')
    reg('S.combine_pops', lambda fs, tc: fs.combine_pops(tc), group='spectrum')
    reg('S.combine_two_pops', lambda fs, tc: fs.combine_two_pops(tc), group='spectrum')
    reg('S.scramble_pop_ids', lambda fs, mask_corners=True: fs.scramble_pop_ids(mask_corners), group='spectrum')
    reg('S.log', lambda fs: fs.log(), group='spectrum')
    reg('S.S', lambda fs: fs.S(), group='spectrum')
    reg('S.pi', lambda fs: fs.pi(), group='spectrum')
    reg('S.Watterson_theta', lambda fs: fs.Watterson_theta(), group='spectrum')
    reg('S.theta_L', lambda fs: fs.theta_L(), group='spectrum')
    reg('S.Zengs_E', lambda fs: fs.Zengs_E(), group='spectrum')
    reg('S.Tajima_D', lambda fs: fs.Tajima_D(), group='spectrum')
    reg('S.Fst', lambda fs: fs.Fst(), group='spectrum')
    reg('S.add', lambda a, b: a + b, group='spectrum')
    reg('S.sub', lambda a, b: a - b, group='spectrum')
    reg('S.mul', lambda a, b: a * b, group='spectrum')
    reg('S.div', lambda a, b: a / b, group='spectrum')
    reg('S.neg', lambda a: -a, group='spectrum')
    reg('S.scale', lambda a, c: c * a, group='spectrum')
    reg('S.iadd', lambda a, b: a.__iadd__(b), inplace=(0,), group='spectrum')
    reg('S.imul', lambda a, c: a.__imul__(c), inplace=(0,), group='spectrum')
    reg('S.mask_corners', lambda a: (a.mask_corners(), a)[1], inplace=(0,), group='spectrum')
    reg('S.unmask_all', lambda a: (a.unmask_all(), a)[1], inplace=(0,), group='spectrum')
    reg('S.copy', lambda a: a.copy(), group='spectrum')
    reg('S.mask_entry', _mask_entry, inplace=(0,), group='spectrum')
    reg('S.setitem', _setitem, inplace=(0,), group='spectrum')
    reg('S.sum', lambda a: a.sum(), group='spectrum')
    reg('S.sample_sizes', lambda a: a.sample_sizes, group='spectrum')
    reg('S.getitem', lambda a, idx: a[tuple(idx)] if isinstance(idx, list) else a[idx], group='spectrum')
    reg('apply_anc_state_misid', Numerics.apply_anc_state_misid, group='spectrum')
    reg('Misc.combine_pops', lambda fs, idx: Misc.combine_pops(fs, idx), group='spectrum')
    # ---- numerics
    reg('cached_projection', Numerics._cached_projection, group='numerics')
    reg('BetaBinomConvolution', Numerics.BetaBinomConvolution, group='numerics')
    reg('cached_part', lambda x, n, minval=0, maxval=2: [list(p) for p in Numerics.cached_part(x, n, minval, maxval)], group='numerics')
    reg('cached_part_precalc', lambda x, n, minval=0, maxval=2: Numerics.cached_part_precalc(x, n, minval, maxval), group='numerics')
    reg('multinomln', Numerics.multinomln, group='numerics')
    reg('BetaBinomln', Numerics.BetaBinomln, group='numerics')
    reg('trapz', lambda yy, xx=None, dx=None, axis=-1: Numerics.trapz(yy, xx, dx, axis), group='numerics')
    reg('reverse_array', Numerics.reverse_array, group='numerics')
    reg('intersect_masks', Numerics.intersect_masks, group='numerics')
    reg('extrap_call', lambda f, params, ns, pts: f(params, ns, pts), group='numerics')
    reg('cached_dbeta', lambda nx, xx: dadi.Spectrum_mod.cached_dbeta(nx, xx), group='numerics')
    # ---- likelihood
    reg('ll', Inference.ll, group='likelihood')
    reg('ll_multinom', Inference.ll_multinom, group='likelihood')
    reg('ll_per_bin', Inference.ll_per_bin, group='likelihood')
    reg('ll_multinom_per_bin', Inference.ll_multinom_per_bin, group='likelihood')
    reg('optimal_sfs_scaling', Inference.optimal_sfs_scaling, group='likelihood')
    reg('optimally_scaled_sfs', Inference.optimally_scaled_sfs, group='likelihood')
    reg('linear_Poisson_residual', Inference.linear_Poisson_residual, group='likelihood')
    reg('Anscombe_Poisson_residual', Inference.Anscombe_Poisson_residual, group='likelihood')
    # ---- optimiser helpers
    reg('project_params_down', Inference._project_params_down, group='opthelp')
    reg('project_params_up', Inference._project_params_up, group='opthelp')
    reg('perturb_params', Misc.perturb_params, seed_rng=4242, group='opthelp')
    # the objective every optimiser wrapper evaluates (touches Inference._counter / _theta_store)
    reg('object_func', lambda params, data, f, pts, **kw: Inference._object_func(params, data, f, pts, **kw), group='opthelp')
    reg('object_func_log', lambda lp, data, f, pts, **kw: Inference._object_func_log(lp, data, f, pts, **kw), group='opthelp')
    reg('ensure_1arg_func', lambda v, t: Misc.ensure_1arg_func(v)(t), group='opthelp')
    reg('make_extrap_log_call', lambda f, params, ns, pts: Numerics.make_extrap_log_func(f)(params, ns, pts), group='numerics')
    reg('phi_1D_X', PhiManip.phi_1D_X, group='phi')
    reg('Inference.ll_dict', lambda m, d: {'ll': Inference.ll(m, d), 'llm': Inference.ll_multinom(m, d)}, group='likelihood')
    # ---- godambe (C19 ops)
    reg('G.get_hess', lambda f, p0, eps, args=(): Godambe.get_hess(f, p0, eps, args), group='godambe')
    reg('G.get_grad', lambda f, p0, eps, args=(): Godambe.get_grad(f, p0, eps, args), group='godambe')
    reg('G.FIM_uncert', Godambe.FIM_uncert, group='godambe')
    reg('G.GIM_uncert', Godambe.GIM_uncert, group='godambe')
    reg('G.LRT_adjust', Godambe.LRT_adjust, group='godambe')
    reg('G.Wald_stat', Godambe.Wald_stat, group='godambe')
    reg('G.score_stat', Godambe.score_stat, group='godambe')
    reg('G.sum_chi2_ppf', Godambe.sum_chi2_ppf, group='godambe')
    reg('model_eval', lambda f, params, ns, pts: f(params, ns, pts), group='godambe')
    # ---- lowpass deterministic helpers
    try:
        from dadi.LowPass import LowPass as LP
        reg('LP.partitions_and_probabilities', lambda n, t, Fx=0, af=None: _lp_pp(LP, n, t, Fx, af), group='lowpass')
        reg('LP.projection_matrix', LP.projection_matrix, group='lowpass')
        reg('LP.calling_error_matrix', LP.calling_error_matrix, seed_rng=777, group='lowpass')
        reg('LP.probability_of_no_call', LP.probability_of_no_call_1D_GATK_multisample, group='lowpass')
        reg('LP.probability_enough_individuals_covered', LP.probability_enough_individuals_covered, group='lowpass')
        reg('LP.projection_inbreeding', LP.projection_inbreeding, group='lowpass')
        reg('LP.part_inbreeding_probability', LP.part_inbreeding_probability, group='lowpass')
    except Exception:
        pass
    # ---- data dictionaries
    reg('mk_data_dict', _mk_data_dict, group='make')
    reg('from_data_dict', lambda dd, pop_ids, proj, mask_corners=True, polarized=True: S.from_data_dict(dd, pop_ids, proj, mask_corners, polarized), group='datadict')
    reg('count_data_dict', lambda dd, pop_ids: {repr(k): v for k, v in Misc.count_data_dict(dd, pop_ids).items()}, group='datadict')
    reg('fragment_data_dict', lambda dd, chunk: [sorted(d.keys()) for d in Misc.fragment_data_dict(dd, chunk)], group='datadict')
    reg('bootstraps_from_dd', lambda dd, chunk, nboot, pop_ids, proj, polarized=True:
        Misc.bootstraps_from_dd_chunks(Misc.fragment_data_dict(dd, chunk), nboot, pop_ids, proj, polarized=polarized), seed_rng=99, group='datadict')
    reg('LP.lowpass_call', _lowpass_call, group='lowpass')
    reg('LP.compute_cov_dist', _cov_dist, group='lowpass')
    reg('mk_genotypes', lambda seed, nloci, nind: np.where(np.random.RandomState(seed).random_sample((nloci, nind)) < 0.15, 99,
                                                           np.random.RandomState(seed + 1).randint(0, 3, size=(nloci, nind))), group='make')
    reg('LP.subsample_genotypes', lambda g, n: __import__('dadi.LowPass.LowPass', fromlist=['x']).subsample_genotypes_1D(g, n).shape,
        no_compare=True, group='lowpass')     # draws from an unseedable module-level generator: only its arguments are watched
    reg('LP.lowpass_from_dd', _lowpass_from_dd, group='lowpass')
    reg('optimize_grid', _optimize_grid, group='opthelp')
    reg('nlopt_opt', _nlopt_opt, group='opthelp')
    # ---- demes
    reg('ORACLE.demes_output_twice', _demes_output_twice, group='demes')
    reg('cuda_enabled', lambda toggle=None: dadi.cuda_enabled(toggle), group='integrate')
    reg('A.setitem', _asetitem, inplace=(0,), group='make')
    reg('from_demes', _from_demes, group='demes')
    # ---- round 2 additions (found missing by the reach audit, selftest/reach.py)
    reg('S.pickle_roundtrip', lambda fs: __import__('pickle').loads(__import__('pickle').dumps(fs, protocol=2)), group='spectrum')
    reg('S.repr', lambda fs: repr(fs), group='spectrum')
    reg('S.str', lambda fs: str(fs), group='spectrum')
    reg('mk_value', lambda v: v, group='make')
    reg('minus_ll', Inference.minus_ll, group='likelihood')
    reg('minus_ll_multinom', Inference.minus_ll_multinom, group='likelihood')
    reg('OPT.scipy', _scipy_opt, group='opthelp')
    reg('vcf_data_dict', _vcf_dd, group='datadict')
    reg('dd_keys', lambda dd: [[k, sorted(v['calls'].items()), v.get('outgroup_allele'), v.get('segregating')] for k, v in dd.items()], group='datadict')
    reg('vcf_bootstraps', _vcf_boot, seed_rng=31, group='datadict')
    reg('LP.simulate_calling', _lp_simulate, seed_rng=555, group='lowpass')
    reg('LP.lowpass_sim_call', _lowpass_sim_call, seed_rng=556, group='lowpass')
    reg('LP.subsample_genotypes_seeded', _lp_subsample, group='lowpass')
    reg('ORACLE.errstate_scope', _errstate_scope, group='oracle')
    reg('demes_export', _demes_export, group='demes')
    reg('ts_scope', _ts_scope, fresh=True, group='integrate')
    # ---- interference (E1, E4): results never compared
    reg('E1.churn', _churn, no_compare=True, group='interference')
    reg('E4.np_seed', lambda k: np.random.seed(k), no_compare=True, group='interference')
    reg('E4.py_seed', lambda k: random.seed(k), no_compare=True, group='interference')
    reg('E4.sample', lambda fs: fs.sample(), no_compare=True, group='interference')
    reg('E4.fixed_size_sample', lambda fs, n: fs.fixed_size_sample(n), no_compare=True, group='interference')
    reg('E4.seterr_probe', lambda: dict(np.geterr()), group='interference')
    from . import ops_c19
    ops_c19.register()


def _scipy_opt(which, p0, data, model_fn, pts, **kw):
    """a short run of one of the scipy-based optimiser wrappers (iteration cap); returns the point found"""
    import dadi, io, contextlib
    fn = getattr(dadi.Inference, which)
    buf = io.StringIO()
    with contextlib.redirect_stdout(buf):
        r = fn(p0, data, model_fn, pts, **kw)
    if kw.get('full_output'):
        return [np.asarray(r[0], dtype=float), float(r[1])]
    return np.asarray(r, dtype=float)


def _vcf_small(nrec, skip=0):
    """private scratch copy of the first records of the VCF bundled with the test-suite (the parser is line based)"""
    import dadi, os
    root = os.path.dirname(os.path.dirname(os.path.abspath(dadi.__file__)))
    src = os.path.join(root, 'tests', 'test_data', 'vcf-dot-ref-update.vcf')
    pop = os.path.join(root, 'tests', 'test_data', 'dot-update-popfile_2D.txt')
    out = _tmp('v%d_%d.vcf' % (nrec, skip))
    n = 0
    with open(src) as f, open(out, 'w') as g:
        for line in f:
            if line.startswith('#'):
                g.write(line)
                continue
            n += 1
            if n <= skip:
                continue
            if n > skip + nrec:
                break
            g.write(line)
    return out, pop


def _vcf_dd(nrec, skip=0, subsample=None, seed=None, calc_coverage=False, extract_ploidy=False, want='dd'):
    import dadi, os
    vcf, pop = _vcf_small(nrec, skip)
    try:
        kw = {}
        if subsample is not None:
            kw['subsample'] = dict(subsample)
            kw['seed'] = seed
        r = dadi.Misc.make_data_dict_vcf(vcf, pop, calc_coverage=calc_coverage, extract_ploidy=extract_ploidy, **kw)
        if extract_ploidy:
            # (dictionary, ploidy): the ploidy rides along under a key no consumer looks at
            dd = r[0]
            return dd if want == 'dd' else r[1]
        return r
    finally:
        if os.path.exists(vcf):
            os.unlink(vcf)


def _vcf_boot(nrec, subsample, nboot, chunk, pop_ids):
    import dadi, os
    vcf, pop = _vcf_small(nrec)
    try:
        return dadi.Misc.bootstraps_subsample_vcf(vcf, pop, dict(subsample), nboot, chunk, list(pop_ids))
    finally:
        if os.path.exists(vcf):
            os.unlink(vcf)


def _lp_seed(k):
    """LowPass draws from a module-level numpy Generator and from scipy's global RNG: the simulator owns both"""
    from dadi.LowPass import LowPass as LP
    LP.rng = np.random.default_rng(k)
    np.random.seed(k)
    return LP


def _lp_simulate(cov_rows, af, nseq, nsub, nsim, Fx, k=7):
    LP = _lp_seed(k)
    pop_ids = ['pop%d' % i for i in range(len(nsub))]
    cov = {p: np.array(r, dtype=float) for p, r in zip(pop_ids, cov_rows)}
    return LP.simulate_GATK_multisample_calling(cov, list(af), list(nseq), list(nsub), nsim, list(Fx))


def _lowpass_sim_call(model_fn, params, nsub, pts, cov_rows, nseq, Fx=None, nsim=40, thr=1e-2, k=11):
    """low-pass corrected model through the simulation branch (entries below sim_threshold are simulated)"""
    LP = _lp_seed(k)
    pop_ids = ['pop%d' % i for i in range(len(nsub))]
    cov = {p: np.array(r, dtype=float) for p, r in zip(pop_ids, cov_rows)}
    f = LP.make_low_pass_func_GATK_multisample(model_fn, cov, pop_ids, list(nseq), list(nsub), sim_threshold=thr, Fx=Fx, nsim=nsim)
    return f(params, nsub, pts)


def _lp_subsample(g, n, k=3):
    LP = _lp_seed(k)
    return LP.subsample_genotypes_1D(g, n)


ERRSTATES = {'raise': dict(divide='raise', over='raise', under='ignore', invalid='raise'),
             'warn': dict(divide='warn', over='warn', under='warn', invalid='warn'),
             'mixed': dict(divide='raise', over='ignore', under='warn', invalid='print')}


def _errstate_scope(kind, target, *args, **kw):
    """the caller runs a dadi call inside its own numpy.errstate block (legal: numpy's error handling belongs to the caller):
    whatever the call does -- including raising FloatingPointError because of the caller's setting -- the caller's setting
    must still be in force when it comes back.  A call that 'restores' to a fixed state changes every later computation."""
    import warnings
    want = ERRSTATES[kind]
    with warnings.catch_warnings():
        warnings.simplefilter('ignore')
        with np.errstate(**want):
            raised = None
            try:
                OPS[target].fn(*args, **kw)
            except Exception as e:
                raised = type(e).__name__
            got = dict(np.geterr())
    return {'ok': got == want, 'what': 'numpy error state of the caller after %s' % target, 'set': want, 'found': got, 'raised': raised}


def _demes_export(pts, variant, Nref, ns):
    """a native model built from scratch (phi_1D starts a new event log), exported with Demes.output; the exported graph -- deme
    order included, which fixes the axis order of every spectrum computed from it -- and the spectrum computed from it"""
    import dadi
    xx = dadi.Numerics.default_grid(pts)
    phi = dadi.PhiManip.phi_1D(xx, nu=2.0)
    phi = dadi.Integration.one_pop(phi, xx, 0.05, 2.0)
    phi = dadi.PhiManip.phi_1D_to_2D(xx, phi)
    if variant == 0:
        phi = dadi.Integration.two_pops(phi, xx, 0.05, 1.0, 0.5, m12=1.0)
    else:
        phi = dadi.Integration.two_pops(phi, xx, 0.05, lambda t: 0.5 * (4.0) ** (t / 0.05), 0.5, m21=0.5)
    if variant == 2:
        phi = dadi.PhiManip.phi_2D_admix_1_into_2(phi, 0.2, xx, xx)
        phi = dadi.Integration.two_pops(phi, xx, 0.02, 1.0, 0.5)
    if variant in (1, 3):
        phi = dadi.PhiManip.phi_2D_to_3D_split_2(xx, phi) if variant == 1 else dadi.PhiManip.phi_2D_to_3D_admix(phi, 0.3, xx, xx, xx)
        phi = dadi.Integration.three_pops(phi, xx, 0.03, 1.0, 0.5, 2.0, m13=0.5)
    g = dadi.Demes.output(Nref=Nref)
    d = g.asdict()
    names = [dm['name'] for dm in d['demes']]
    leaves = [dm['name'] for dm in d['demes'] if dm['epochs'][-1]['end_time'] == 0]
    summary = [[dm['name'], list(dm.get('ancestors', [])), [float(x) for x in dm.get('proportions', [])], float(dm['start_time']) if dm['start_time'] != float('inf') else -1.0,
                [[float(e['end_time']), float(e['start_size']), float(e['end_size'])] for e in dm['epochs']]] for dm in d['demes']]
    mig = [[m.get('source'), m.get('dest'), float(m['rate'])] for m in d.get('migrations', [])]
    pul = [[list(p_['sources']), p_['dest'], [float(x) for x in p_['proportions']], float(p_['time'])] for p_ in d.get('pulses', [])]
    try:
        fs = dadi.Spectrum.from_demes(g, sampled_demes=leaves, sample_sizes=[ns] * len(leaves), pts=pts)
    except ValueError as e:
        # re-importing an exported three-way admixture fails on this tree ('d3_1' is not in list): outside C20, and the
        # same in the pristine run; the exported graph is still compared
        fs = 'ValueError'
    return {'names': names, 'leaves': leaves, 'demes': summary, 'migrations': mig, 'pulses': pul, 'fs': fs}


def _ts_scope(pts_ref, factor, phi, xx, T, *nus, **kw):
    """the documented timestep knob used the way its docstring says (set_timescale_factor before integrating), with the previous
    setting put back afterwards: a self-contained computation, so it must not depend on what ran under another setting"""
    import dadi
    old = dadi.Integration.timescale_factor
    try:
        dadi.Integration.set_timescale_factor(pts_ref, factor)
        fn = {2: dadi.Integration.one_pop, 3: dadi.Integration.two_pops, 4: dadi.Integration.three_pops}[phi.ndim + 1]
        return fn(phi, xx, T, *nus, **kw)
    finally:
        dadi.Integration.timescale_factor = old


def _mk_data_dict(seed, nsnp, pops, nchrom, nconfig=4, chroms=('chr1', 'chr2', 'scaffold_10'), sparse=0):
    """synthetic data dictionary: few distinct SNP configurations (so counts > 1), several chromosomes, some SNPs unpolarised"""
    rs = np.random.RandomState(seed)
    configs = []
    for _ in range(nconfig):
        calls = {}
        for pop, n in zip(pops, nchrom):
            tot = n - rs.randint(0, 2)
            a2 = rs.randint(0, tot + 1)
            calls[pop] = (int(tot - a2), int(a2))
        configs.append(calls)
    dd = {}
    for i in range(nsnp):
        c = configs[rs.randint(0, nconfig)]
        og = ['A', 'A', 'A', 'T', '-'][rs.randint(0, 5)]
        dd['%s_%d' % (chroms[rs.randint(0, len(chroms))], 100 + 37 * i)] = {'segregating': ('A', 'T'), 'calls': dict(c), 'outgroup_allele': og,
                                                                           'context': 'CAG', 'outgroup_context': 'CAG',
                                                                           'coverage': {pop: rs.poisson(2 + 3 * pi, size=max(n // 2, 1)) for pi, (pop, n) in enumerate(zip(pops, nchrom))}}
    if sparse:
        # records without the optional entries (a hand-built dictionary): no outgroup information for some SNPs
        for i, key in enumerate(list(dd)):
            if i % 3 == sparse % 3:
                for opt in ('outgroup_allele', 'outgroup_context', 'context')[:1 + sparse % 3]:
                    dd[key].pop(opt, None)
    return dd


def _cov_dist(dd, pop_ids):
    from dadi.LowPass import LowPass as LP
    r = LP.compute_cov_dist(dd, pop_ids)
    return [[k, v] for k, v in r.items()]          # order of the returned dictionary matters to its consumers


def _lowpass_from_dd(model_fn, params, nsub, pts, dd, pop_ids, nseq):
    """coverage distribution computed from the data dictionary, then the low-pass corrected model (analytic branch)"""
    from dadi.LowPass import LowPass as LP
    cov = LP.compute_cov_dist(dd, pop_ids)
    f = LP.make_low_pass_func_GATK_multisample(model_fn, cov, pop_ids, list(nseq), list(nsub), sim_threshold=1.0)
    return f(params, nsub, pts)


def _nlopt_opt(p0, data, model_fn, pts, **kw):
    """a short, deterministic local optimisation (BOBYQA, evaluation cap); returns the point found and its likelihood"""
    import dadi
    popt, llopt = dadi.Inference.opt(list(p0), data, model_fn, pts, **kw)
    return [np.asarray(popt, dtype=float), float(llopt)]


def _optimize_grid(data, model_fn, pts, grid, **kw):
    import dadi, io, contextlib
    g = tuple(slice(a, b, c) for a, b, c in grid)
    buf = io.StringIO()
    with contextlib.redirect_stdout(buf):
        return dadi.Inference.optimize_grid(data, model_fn, pts, g, **kw)


def _lowpass_call(model_fn, params, nsub, pts, cov_rows, nseq, Fx=None):
    from dadi.LowPass import LowPass as LP
    pop_ids = ['pop%d' % i for i in range(len(nsub))]
    cov = {p: np.array(r, dtype=float) for p, r in zip(pop_ids, cov_rows)}
    f = LP.make_low_pass_func_GATK_multisample(model_fn, cov, pop_ids, list(nseq), list(nsub), sim_threshold=1.0, Fx=Fx)
    return f(params, nsub, pts)


def _lp_pp(LP, n, t, Fx, af):
    r = LP.partitions_and_probabilities(n, t, Fx, af)
    return r


GRAPHS = {}


def graph(name):
    def deco(f):
        GRAPHS[name] = f
        return f
    return deco


def _from_demes(gid, sampled_demes, sample_sizes, pts, sample_times=None, Ne=None, via_file=False):
    import dadi
    g = GRAPHS[gid]()
    kw = {}
    if sample_times is not None:
        kw['sample_times'] = sample_times
    if Ne is not None:
        kw['Ne'] = Ne
    if via_file:
        # the graph handed over as a YAML file name; the same (per-process) name is used for every graph, like a script that
        # dumps successive candidate models to one file
        import demes, os
        path = _tmp('model.yaml')
        try:
            demes.dump(g, path)
            return dadi.Spectrum.from_demes(path, sampled_demes=sampled_demes, sample_sizes=sample_sizes, pts=pts, **kw)
        finally:
            if os.path.exists(path):
                os.unlink(path)
    return dadi.Spectrum.from_demes(g, sampled_demes=sampled_demes, sample_sizes=sample_sizes, pts=pts, **kw)


def _file_graph(name):
    def load():
        import demes, dadi, os
        root = os.path.dirname(os.path.dirname(os.path.abspath(dadi.__file__)))
        return demes.load(os.path.join(root, 'tests', 'demes', name + '.yaml'))
    return load


for _n in ('gutenkunst_ooa', 'browning_america', 'offshoots', 'bottleneck', 'two_epoch', 'cloning_example'):
    GRAPHS['file:' + _n] = _file_graph(_n)


def _b():
    import demes
    return demes.Builder(time_units='generations')


@graph('split2')
def _g_split2():
    b = _b()
    b.add_deme('anc', epochs=[dict(start_size=1000, end_time=200)])
    b.add_deme('A', ancestors=['anc'], epochs=[dict(start_size=800, end_time=0)])
    b.add_deme('B', ancestors=['anc'], epochs=[dict(start_size=1500, end_time=0)])
    return b.resolve()


@graph('split2_mig')
def _g_split2_mig():
    b = _b()
    b.add_deme('anc', epochs=[dict(start_size=1000, end_time=200)])
    b.add_deme('zeta', ancestors=['anc'], epochs=[dict(start_size=800, end_time=0)])
    b.add_deme('alpha', ancestors=['anc'], epochs=[dict(start_size=1500, end_time=0)])
    b.add_migration(source='zeta', dest='alpha', rate=1e-3)
    return b.resolve()


@graph('tree3')
def _g_tree3():
    b = _b()
    b.add_deme('anc', epochs=[dict(start_size=1000, end_time=300)])
    b.add_deme('X', ancestors=['anc'], epochs=[dict(start_size=900, end_time=150)])
    b.add_deme('Y', ancestors=['anc'], epochs=[dict(start_size=1200, end_time=0)])
    b.add_deme('X1', ancestors=['X'], epochs=[dict(start_size=500, end_time=0)])
    b.add_deme('X2', ancestors=['X'], epochs=[dict(start_size=700, end_time=0)])
    return b.resolve()


@graph('tree4')
def _g_tree4():
    b = _b()
    b.add_deme('root', epochs=[dict(start_size=1000, end_time=400)])
    b.add_deme('L', ancestors=['root'], epochs=[dict(start_size=900, end_time=200)])
    b.add_deme('R', ancestors=['root'], epochs=[dict(start_size=1100, end_time=250)])
    b.add_deme('pear', ancestors=['L'], epochs=[dict(start_size=500, end_time=0)])
    b.add_deme('apple', ancestors=['L'], epochs=[dict(start_size=700, end_time=0)])
    b.add_deme('fig', ancestors=['R'], epochs=[dict(start_size=600, end_time=0)])
    b.add_deme('kiwi', ancestors=['R'], epochs=[dict(start_size=800, end_time=0)])
    return b.resolve()


@graph('tree5')
def _g_tree5():
    b = _b()
    b.add_deme('root', epochs=[dict(start_size=1000, end_time=400)])
    b.add_deme('L', ancestors=['root'], epochs=[dict(start_size=900, end_time=200)])
    b.add_deme('R', ancestors=['root'], epochs=[dict(start_size=1100, end_time=250)])
    b.add_deme('d1', ancestors=['L'], epochs=[dict(start_size=500, end_time=100)])
    b.add_deme('q2', ancestors=['L'], epochs=[dict(start_size=700, end_time=0)])
    b.add_deme('m3', ancestors=['R'], epochs=[dict(start_size=600, end_time=0)])
    b.add_deme('b4', ancestors=['R'], epochs=[dict(start_size=800, end_time=0)])
    b.add_deme('z5', ancestors=['d1'], epochs=[dict(start_size=300, end_time=0)])
    b.add_deme('a6', ancestors=['d1'], epochs=[dict(start_size=400, end_time=0)])
    return b.resolve()


@graph('branch')
def _g_branch():
    b = _b()
    b.add_deme('main', epochs=[dict(start_size=1000, end_time=0)])
    b.add_deme('side', ancestors=['main'], start_time=150, epochs=[dict(start_size=400, end_time=0)])
    return b.resolve()


@graph('pulse')
def _g_pulse():
    b = _b()
    b.add_deme('anc', epochs=[dict(start_size=1000, end_time=200)])
    b.add_deme('north', ancestors=['anc'], epochs=[dict(start_size=800, end_time=0)])
    b.add_deme('east', ancestors=['anc'], epochs=[dict(start_size=1500, end_time=0)])
    b.add_pulse(sources=['north'], dest='east', proportions=[0.2], time=50)
    return b.resolve()


@graph('admix')
def _g_admix():
    b = _b()
    b.add_deme('anc', epochs=[dict(start_size=1000, end_time=300)])
    b.add_deme('uno', ancestors=['anc'], epochs=[dict(start_size=800, end_time=0)])
    b.add_deme('dos', ancestors=['anc'], epochs=[dict(start_size=1500, end_time=0)])
    b.add_deme('mix', ancestors=['uno', 'dos'], proportions=[0.3, 0.7], start_time=100, epochs=[dict(start_size=600, end_time=0)])
    return b.resolve()
