"""Engine B, interpreter side: executes a *session* -- 1..n client programs (straight-line chains of
public API calls) interleaved at call boundaries in one interpreter -- with environment faults
(layout of array arguments, address-reuse churn, RNG interference) and per-op invariants (argument
preservation, freshness).  The same executor runs the pristine reference (one client alone, canonical
layouts, no faults).  Everything a session does is explicit in the job description: replay = rerun."""
import gc, sys, random
import numpy as np

from . import ops as OPS


# ------------------------------------------------------------------------------------------------
# normal form of results (what is compared between session and reference)

class Exc:
    def __init__(self, e):
        self.cls = type(e).__name__
        self.msg = str(e)[:300]


def nf(x, depth=0):
    if isinstance(x, Exc):
        return ('exc', x.cls)
    if x is None or isinstance(x, (bool, str)):
        return ('v', x)
    if isinstance(x, (int, np.integer)) and not isinstance(x, (bool, np.bool_)):
        return ('i', int(x))
    if isinstance(x, (float, np.floating)):
        return ('f', float(x))
    if isinstance(x, (np.bool_,)):
        return ('v', bool(x))
    if isinstance(x, complex):
        return ('c', x)
    if isinstance(x, np.ma.MaskedArray):
        d = np.array(np.ma.getdata(x), dtype=float if x.dtype.kind in 'fiub' else None, copy=True, order='C')
        m = np.array(np.ma.getmaskarray(x), copy=True, order='C')
        if d.dtype.kind == 'f':
            d[m] = np.nan
        return ('ma', type(x).__name__, d, m, getattr(x, 'folded', None),
                None if getattr(x, 'pop_ids', None) is None else list(x.pop_ids), getattr(x, 'extrap_x', None))
    if isinstance(x, np.ndarray):
        if x.dtype == object:
            return ('l', [nf(v, depth + 1) for v in x.tolist()])
        return ('a', x.dtype.kind, np.array(x, copy=True, order='C'))
    if isinstance(x, (list, tuple)):
        if depth > 6:
            return ('v', 'deep')
        return ('l', [nf(v, depth + 1) for v in x])
    if isinstance(x, dict):
        return ('d', [(repr(k), nf(v, depth + 1)) for k, v in sorted(x.items(), key=lambda kv: repr(kv[0]))])
    if callable(x):
        return ('v', 'callable')
    return ('o', type(x).__name__)


def nf_diff(a, b, rtol=1e-9, afloor=1e-12, path=''):
    """None if equal within the tolerance policy of DESIGN.md 2.3, else (kind, description)."""
    if a[0] != b[0]:
        if 'exc' in (a[0], b[0]):
            return ('outcome-differs', '%s: %s vs reference %s' % (path, _brief(a), _brief(b)))
        if {a[0], b[0]} <= {'i', 'f'}:
            return _num_diff(np.array(float(a[1])), np.array(float(b[1])), rtol, afloor, path)
        return ('value-differs', '%s: type %s vs reference %s' % (path, a[0], b[0]))
    t = a[0]
    if t == 'exc':
        return None if a[1] == b[1] else ('outcome-differs', '%s: raises %s vs reference raises %s' % (path, a[1], b[1]))
    if t in ('v', 'i', 'o', 'c'):
        return None if a[1] == b[1] else ('value-differs', '%s: %r vs reference %r' % (path, a[1], b[1]))
    if t == 'f':
        return _num_diff(np.array(a[1]), np.array(b[1]), rtol, afloor, path)
    if t == 'a':
        if a[2].shape != b[2].shape:
            return ('value-differs', '%s: shape %s vs reference %s' % (path, a[2].shape, b[2].shape))
        if a[1] != b[1]:
            return ('value-differs', '%s: dtype kind %s vs reference %s' % (path, a[1], b[1]))
        if a[1] in 'fc':
            return _num_diff(a[2], b[2], rtol, afloor, path)
        return None if np.array_equal(a[2], b[2]) else ('value-differs', '%s: array contents differ' % path)
    if t == 'ma':
        if a[1] != b[1]:
            return ('value-differs', '%s: class %s vs reference %s' % (path, a[1], b[1]))
        if a[2].shape != b[2].shape:
            return ('value-differs', '%s: shape %s vs reference %s' % (path, a[2].shape, b[2].shape))
        if not np.array_equal(a[3], b[3]):
            return ('value-differs', '%s: mask differs' % path)
        if a[4] != b[4]:
            return ('value-differs', '%s: folded %r vs reference %r' % (path, a[4], b[4]))
        if a[5] != b[5]:
            return ('value-differs', '%s: pop_ids %r vs reference %r' % (path, a[5], b[5]))
        if a[6] is not None and b[6] is not None:
            d = _num_diff(np.array(float(a[6])), np.array(float(b[6])), rtol, afloor, path + '.extrap_x')
            if d:
                return d
        if a[2].dtype.kind == 'f':
            return _num_diff(a[2], b[2], rtol, afloor, path)
        return None if np.array_equal(a[2], b[2]) else ('value-differs', '%s: contents differ' % path)
    if t == 'l':
        if len(a[1]) != len(b[1]):
            return ('value-differs', '%s: length %d vs reference %d' % (path, len(a[1]), len(b[1])))
        for i, (x, y) in enumerate(zip(a[1], b[1])):
            d = nf_diff(x, y, rtol, afloor, '%s[%d]' % (path, i))
            if d:
                return d
        return None
    if t == 'd':
        if [k for k, _ in a[1]] != [k for k, _ in b[1]]:
            return ('value-differs', '%s: keys differ' % path)
        for (k, x), (_, y) in zip(a[1], b[1]):
            d = nf_diff(x, y, rtol, afloor, '%s[%s]' % (path, k))
            if d:
                return d
        return None
    return None


def _brief(a):
    if a[0] == 'exc':
        return 'raises ' + a[1]
    return 'returns ' + a[0]


def _num_diff(x, y, rtol, afloor, path):
    x = np.asarray(x)
    y = np.asarray(y)
    if x.dtype.kind == 'c' or y.dtype.kind == 'c':
        x = x.astype(complex)
        y = y.astype(complex)
    nx, ny = np.isnan(x), np.isnan(y)
    if not np.array_equal(nx, ny):
        return ('value-differs', '%s: NaN pattern differs' % path)
    ix, iy = np.isinf(x), np.isinf(y)
    if not np.array_equal(ix, iy) or not np.array_equal(x[ix], y[iy]):
        return ('value-differs', '%s: inf pattern differs' % path)
    fin = ~(nx | ix)
    if not fin.any():
        return None
    xf, yf = x[fin], y[fin]
    scale = float(np.max(np.abs(yf))) if yf.size else 0.0
    tol = rtol * np.abs(yf) + afloor * scale
    bad = np.abs(xf - yf) > tol
    if bad.any():
        k = int(np.argmax(np.abs(xf - yf) - tol))
        return ('value-differs', '%s: %r vs reference %r (max |ref| %.3g, %d of %d entries beyond rtol %g)'
                % (path, xf[k].item(), yf[k].item(), scale, int(bad.sum()), xf.size, rtol))
    return None


# ------------------------------------------------------------------------------------------------
# argument snapshots (bit-for-bit, in logical order)

def snap(x, depth=0):
    if isinstance(x, np.ma.MaskedArray):
        return ('ma', x.shape, str(x.dtype), np.ascontiguousarray(np.ma.getdata(x)).tobytes(),
                np.ascontiguousarray(np.ma.getmaskarray(x)).tobytes(), getattr(x, 'folded', None),
                None if getattr(x, 'pop_ids', None) is None else tuple(x.pop_ids))
    if isinstance(x, np.ndarray):
        if x.dtype == object:
            return ('ao', tuple(snap(v, depth + 1) for v in x.ravel().tolist()))
        return ('a', x.shape, str(x.dtype), np.ascontiguousarray(x).tobytes())
    if isinstance(x, (list, tuple)):
        if depth > 6:
            return ('deep',)
        return (type(x).__name__, tuple(snap(v, depth + 1) for v in x))
    if isinstance(x, dict):
        return ('d', tuple((repr(k), snap(v, depth + 1)) for k, v in sorted(x.items(), key=lambda kv: repr(kv[0]))))
    if isinstance(x, float):
        return ('f', repr(x))
    if x is None or isinstance(x, (bool, int, str, np.generic)):
        return ('v', repr(x))
    return ('o', type(x).__name__)


# ------------------------------------------------------------------------------------------------
# layouts (fault E2): equal-valued objects with a different memory layout

LAYOUTS = ['fortran', 'tview', 'strided', 'negstride', 'view', 'offset']


def relayout_array(a, kind):
    a = np.asarray(a)
    if a.ndim == 0:
        return a
    if kind == 'fortran':
        return np.array(a, order='F', copy=True)
    if kind == 'tview':          # non-owning transposed view of a C-contiguous buffer
        return np.ascontiguousarray(a.T).T
    if kind == 'strided':        # every second element of a larger buffer along every axis
        big = np.full(tuple(2 * s for s in a.shape), 7.7e77 if a.dtype.kind == 'f' else 1, dtype=a.dtype)
        v = big[tuple(slice(0, None, 2) for _ in a.shape)]
        v[...] = a
        return v
    if kind == 'negstride':      # reversed copy viewed backwards along the last axis
        rev = np.ascontiguousarray(a[..., ::-1])
        return rev[..., ::-1]
    if kind == 'view':           # non-owning C-contiguous view
        return np.array(a, copy=True, order='C').view()
    if kind == 'offset':         # window into a larger buffer (sliced, contiguous only along the last axis)
        big = np.full(tuple(s + 3 for s in a.shape), -3.3e33 if a.dtype.kind == 'f' else 1, dtype=a.dtype)
        v = big[tuple(slice(1, 1 + s) for s in a.shape)]
        v[...] = a
        return v
    raise KeyError(kind)


def relayout(x, kind):
    """Value-preserving layout change of an ndarray / masked array / Spectrum argument."""
    if isinstance(x, np.ma.MaskedArray):
        d = relayout_array(np.ma.getdata(x), kind)
        m = relayout_array(np.ma.getmaskarray(x), kind)
        import dadi
        if isinstance(x, dadi.Spectrum):
            y = dadi.Spectrum(d, mask=m, mask_corners=False, data_folded=x.folded, check_folding=False,
                              pop_ids=x.pop_ids, extrap_x=getattr(x, 'extrap_x', None), copy=False)
            return y
        return np.ma.masked_array(d, mask=m, copy=False, keep_mask=False)
    if isinstance(x, np.ndarray):
        return relayout_array(x, kind)
    if isinstance(x, tuple) and x and all(isinstance(v, np.ndarray) for v in x):
        return tuple(relayout(v, kind) for v in x)
    if isinstance(x, list) and x and all(isinstance(v, np.ndarray) for v in x):
        return [relayout(v, kind) for v in x]
    return x


def layout_desc(x):
    if isinstance(x, np.ma.MaskedArray):
        x = np.ma.getdata(x)
    if not isinstance(x, np.ndarray):
        return None
    return {'c': bool(x.flags.c_contiguous), 'f': bool(x.flags.f_contiguous), 'own': bool(x.flags.owndata),
            'strides': list(x.strides)}


# ------------------------------------------------------------------------------------------------
# executor

class Skip(Exception):
    pass


def resolve(v, env):
    if isinstance(v, dict):
        if '$' in v:
            name = v['$']
            if name not in env:
                raise Skip(name)
            r = env[name]
            if isinstance(r, Exc):
                raise Skip(name)
            if 'i' in v:
                r = r[v['i']]
            return r
        if '$fn' in v:
            return OPS.make_fn(v, lambda w: resolve(w, env))
        if '$tuple' in v:
            return tuple(resolve(w, env) for w in v['$tuple'])
        if '$arr' in v:
            return np.array(resolve(v['$arr'], env), dtype=v.get('dtype', float))
        return {k: resolve(w, env) for k, w in v.items()}
    if isinstance(v, list):
        return [resolve(w, env) for w in v]
    return v


def _arrays_in(x, out, depth=0):
    if isinstance(x, np.ndarray):
        out.append(x)
    elif isinstance(x, (list, tuple)) and depth < 4:
        for v in x:
            _arrays_in(v, out, depth + 1)
    return out


def run_session(job, emit):
    """job: {'clients': {cid: [step,...]}, 'order': [cid,...], 'layout': {"cid:step:arg": kind}, 'pre': [...]}.
    emit(frame) is called after every step (so the parent knows which op was in flight at a crash)."""
    envs = {cid: {} for cid in job['clients']}
    pos = {cid: 0 for cid in job['clients']}
    esnap = {}        # (cid, name) -> snapshot of the value as last seen
    group = {}        # (cid, name) -> alias group: values that may legitimately change together (documented views, in-place ops returning self)
    producer = {}     # (cid, name) -> (step index, op)
    layout = job.get('layout') or {}
    counters = OPS.install_cache_probes()
    reach = None
    if job.get('reach'):
        # reach probe (audit runs only, selftest/reach.py): which dadi functions ran during the session
        import sys
        reach = set()

        def _prof(fr, ev, arg):
            if ev == 'call':
                fn = fr.f_code.co_filename
                i = fn.find('/dadi/')
                if i >= 0:
                    reach.add(fn[i + 6:] + ':' + fr.f_code.co_qualname)
        sys.setprofile(_prof)
    for cid in job['order']:
        prog = job['clients'][cid]
        k = pos[cid]
        if k >= len(prog):
            continue
        pos[cid] = k + 1
        step = prog[k]
        env = envs[cid]
        if step['op'] == 'E1.forget':
            # the client drops its references: the objects are freed and their addresses become available again
            for nm in step.get('a', []):
                env.pop(nm, None)
                esnap.pop((cid, nm), None)
            gc.collect()
            emit({'cid': cid, 'k': k, 'op': step['op'], 'nf': ('v', 'not-compared'), 'mutated': [], 'layout': []})
            continue
        od = OPS.OPS.get(step['op'])
        frame = {'cid': cid, 'k': k, 'op': step['op']}
        if od is None:
            frame['nf'] = ('exc', 'UnknownOp')
            frame['harness'] = 'unknown op'
            emit(frame)
            continue
        emit({'cid': cid, 'k': k, 'op': step['op'], 'begin': True})
        try:
            args = [resolve(a, env) for a in step.get('a', [])]
            kwargs = {kk: resolve(vv, env) for kk, vv in (step.get('kw') or {}).items()}
        except Skip as s:
            env[step['r']] = Exc(KeyError('upstream'))
            frame['nf'] = ('v', 'skipped')
            frame['skipped'] = True
            emit(frame)
            continue
        applied = []
        for ai in range(len(args)):
            kind = layout.get('%s:%d:%d' % (cid, k, ai))
            if kind and ai not in od.inplace:
                try:
                    new = relayout(args[ai], kind)
                except Exception:
                    new = args[ai]        # an object dadi itself left inconsistent: no layout change
                if new is not args[ai]:
                    args[ai] = new
                    applied.append([ai, kind])
        for kk in list(kwargs):
            kind = layout.get('%s:%d:%s' % (cid, k, kk))
            if kind and kk not in od.inplace:
                try:
                    new = relayout(kwargs[kk], kind)
                except Exception:
                    new = kwargs[kk]
                if new is not kwargs[kk]:
                    kwargs[kk] = new
                    applied.append([kk, kind])
        frame['layout'] = applied
        names = list(range(len(args))) + sorted(kwargs)
        vals = args + [kwargs[kk] for kk in sorted(kwargs)]
        before = [None if n in od.inplace else snap(v) for n, v in zip(names, vals)]
        hits0 = dict(counters.hits) if counters else {}
        if od.seed_rng is not None:
            np.random.seed(od.seed_rng)
            random.seed(od.seed_rng)
        try:
            res = od.fn(*args, **kwargs)
        except Exception as e:
            res = Exc(e)
            frame['exc_msg'] = res.msg
        mutated = []
        for n, v, b in zip(names, vals, before):
            if b is not None and snap(v) != b:
                mutated.append(n)
        frame['mutated'] = mutated
        if od.fresh and not isinstance(res, Exc):
            alias = []
            ra = _arrays_in(res, [])
            for n, v in zip(names, vals):
                for arr in _arrays_in(v, []):
                    if any(x is arr or np.shares_memory(x, arr) for x in ra):
                        alias.append(n)
                        break
            frame['alias'] = alias
        if counters:
            frame['hits'] = {c: counters.hits[c] - hits0.get(c, 0) for c in counters.hits if counters.hits[c] != hits0.get(c, 0)}
        env[step['r']] = res
        # ---- every value any client holds must be unchanged by this call, except the arguments documented as modified in
        # place and values that alias them by contract (a result that *is* the in-place argument, documented views)
        me = (cid, step['r'])
        producer[me] = (k, step['op'])
        argnames = {}
        for ai, a in enumerate(step.get('a', [])):
            if isinstance(a, dict) and '$' in a and 'i' not in a:
                argnames[ai] = (cid, a['$'])
        for kk, a in (step.get('kw') or {}).items():
            if isinstance(a, dict) and '$' in a and 'i' not in a:
                argnames[kk] = (cid, a['$'])
        group.setdefault(me, me)
        if not isinstance(res, Exc):
            ra = _arrays_in(res, [])
            for n, v in zip(names, vals):
                if n in argnames and ra:
                    same = res is v or (n in od.inplace and any(x is y for x in ra for y in _arrays_in(v, [])))
                    view = step['op'] in OPS.VIEW_OPS and any(np.shares_memory(x, y) for x in ra for y in _arrays_in(v, []))
                    if same or view:
                        group[me] = group.get(argnames[n], argnames[n])
        allowed = set()
        for n in od.inplace:
            if n in argnames:
                g = group.get(argnames[n], argnames[n])
                allowed.update(key for key, gg in group.items() if gg == g)
                allowed.add(argnames[n])
        others = []
        for c2, e2 in envs.items():
            for nm, val in e2.items():
                key = (c2, nm)
                if key == me:
                    continue
                try:
                    cur = snap(val)
                except Exception:
                    continue
                old_snap = esnap.get(key)
                if old_snap is not None and cur != old_snap and key not in allowed:
                    pk, pop = producer.get(key, (-1, '?'))
                    others.append([c2, nm, pk, pop])
                esnap[key] = cur
        try:
            esnap[me] = snap(res)
        except Exception:
            pass
        if others:
            frame['mutated_other'] = others
        try:
            frame['nf'] = ('v', 'not-compared') if od.no_compare else nf(res)
        except Exception as e:
            frame['nf'] = ('exc', 'NormalForm:' + type(e).__name__)
        frame['res_layout'] = layout_desc(res)
        emit(frame)
    import numpy
    # floating-point environment of the interpreter thread: gradual underflow must still work (a library that switches
    # flush-to-zero / denormals-are-zero on and does not restore it changes every later computation on tiny numbers)
    tiny = numpy.float64(5e-324)
    sub = numpy.array([1e-310, 3e-320])
    fpenv = [bool(tiny * numpy.float64(1.0) != 0.0), bool((sub * 1.0 != 0.0).all()), bool(numpy.float64(2.2250738585072014e-308) / 4.0 != 0.0),
             float(numpy.sum(sub) / 1e-310)]
    endf = {'end': True, 'geterr': numpy.geterr(), 'fpenv': fpenv}
    if reach is not None:
        import sys
        sys.setprofile(None)
        endf['reach'] = sorted(reach)
    emit(endf)
