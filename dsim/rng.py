"""Seed tree.  derive(root, *labels) -> Stream; streams are independent, so a draw added
for one purpose never shifts another.  Never touches the global RNGs or a clock."""
import hashlib, math

_M64 = (1 << 64) - 1


def _mix(z):
    z = (z + 0x9E3779B97F4A7C15) & _M64
    z = ((z ^ (z >> 30)) * 0xBF58476D1CE4E5B9) & _M64
    z = ((z ^ (z >> 27)) * 0x94D049BB133111EB) & _M64
    return z ^ (z >> 31)


def derive_int(root, *labels):
    h = hashlib.sha256(repr((int(root),) + tuple(labels)).encode()).digest()
    return int.from_bytes(h[:8], 'little')


class Stream:
    """SplitMix64 stream."""
    __slots__ = ('s', 'draws')

    def __init__(self, seed):
        self.s = seed & _M64
        self.draws = 0

    def u64(self):
        self.s = (self.s + 0x9E3779B97F4A7C15) & _M64
        z = self.s
        z = ((z ^ (z >> 30)) * 0xBF58476D1CE4E5B9) & _M64
        z = ((z ^ (z >> 27)) * 0x94D049BB133111EB) & _M64
        self.draws += 1
        return z ^ (z >> 31)

    def random(self):
        return (self.u64() >> 11) * (1.0 / (1 << 53))

    def randrange(self, n):
        if n <= 0:
            raise ValueError('randrange(%r)' % (n,))
        return self.u64() % n

    def randint(self, a, b):
        return a + self.randrange(b - a + 1)

    def choice(self, seq):
        return seq[self.randrange(len(seq))]

    def uniform(self, a, b):
        return a + (b - a) * self.random()

    def loguniform(self, a, b):
        return math.exp(self.uniform(math.log(a), math.log(b)))

    def chance(self, p):
        return self.random() < p

    def shuffle(self, lst):
        for i in range(len(lst) - 1, 0, -1):
            j = self.randrange(i + 1)
            lst[i], lst[j] = lst[j], lst[i]
        return lst

    def sample(self, seq, k):
        l = list(seq)
        self.shuffle(l)
        return l[:k]

    def normal(self):
        u1 = max(self.random(), 1e-300)
        u2 = self.random()
        return math.sqrt(-2 * math.log(u1)) * math.cos(2 * math.pi * u2)


def derive(root, *labels):
    return Stream(derive_int(root, *labels))
