"""Zygote: an interpreter started with a chosen PYTHONHASHSEED that imports dadi (extensions rebuilt from
the working tree) and nothing else; every session / reference evaluation is a fork() of it, so module
state is exactly the just-imported state for every job.  Protocol: length-prefixed pickle frames on
stdin/stdout.  Usage: python zygote.py <repo> [--oneshot]"""
import os, sys, struct, pickle, signal, select, time, gc

HERE = os.path.dirname(os.path.dirname(os.path.abspath(__file__)))
sys.path.insert(0, HERE)


def read_frame(f):
    h = f.read(4)
    if len(h) < 4:
        return None
    n = struct.unpack('<I', h)[0]
    b = f.read(n)
    if len(b) < n:
        return None
    return pickle.loads(b)


def write_frame(f, obj):
    b = pickle.dumps(obj, protocol=4)
    f.write(struct.pack('<I', len(b)) + b)
    f.flush()


def run_job_here(job, emit):
    from dsim import session
    if job['kind'] == 'session':
        session.run_session(job, emit)
    elif job['kind'] == 'ping':
        emit({'pong': os.environ.get('PYTHONHASHSEED'), 'end': True})
    else:
        emit({'harness': 'unknown job kind', 'end': True})


def serve(inp, out):
    while True:
        job = read_frame(inp)
        if job is None:
            return
        if job.get('kind') == 'quit':
            return
        r, w = os.pipe()
        sys.stdout.flush()
        pid = os.fork()
        if pid == 0:
            # ---- child: one job, pristine module state
            try:
                os.close(r)
                wf = os.fdopen(w, 'wb')
                devnull = os.open(os.devnull, os.O_WRONLY)
                os.dup2(devnull, 1)
                os.dup2(devnull, 2)
                def emit(fr):
                    write_frame(wf, fr)
                try:
                    run_job_here(job, emit)
                except BaseException as e:
                    import traceback
                    emit({'harness': 'executor exception: %s' % traceback.format_exc()[-1500:], 'end': True})
                wf.flush()
            finally:
                os._exit(0)
        os.close(w)
        rf = os.fdopen(r, 'rb')
        deadline = time.monotonic() + float(job.get('timeout', 120))
        frames = []
        timed_out = False
        buf = b''
        while True:
            left = deadline - time.monotonic()
            if left <= 0:
                timed_out = True
                break
            rd, _, _ = select.select([rf], [], [], min(left, 5.0))
            if rd:
                chunk = os.read(rf.fileno(), 1 << 16)
                if not chunk:
                    break
                buf += chunk
        if timed_out:
            try:
                os.kill(pid, signal.SIGKILL)
            except OSError:
                pass
        _, status = os.waitpid(pid, 0)
        rf.close()
        # scratch files of the child's I/O ops (it removes them itself unless it died)
        import glob
        for leftover in glob.glob('/dev/shm/verif-io-%d-*' % pid):
            try:
                os.unlink(leftover)
            except OSError:
                pass
        # only whole frames are forwarded
        p = 0
        while p + 4 <= len(buf):
            n = struct.unpack('<I', buf[p:p + 4])[0]
            if p + 4 + n > len(buf):
                break
            try:
                frames.append(pickle.loads(buf[p + 4:p + 4 + n]))
            except Exception:
                break
            p += 4 + n
        sig = os.WTERMSIG(status) if os.WIFSIGNALED(status) else 0
        write_frame(out, {'frames': frames, 'signal': sig, 'timed_out': timed_out,
                          'exit': os.WEXITSTATUS(status) if os.WIFEXITED(status) else None})


def main():
    repo = sys.argv[1]
    oneshot = '--oneshot' in sys.argv
    os.environ.setdefault('OPENBLAS_NUM_THREADS', '1')
    from dsim import build
    build.preload(repo)
    from dsim import session, ops  # noqa
    ops.warm_imports()
    inp = sys.stdin.buffer
    out = sys.stdout.buffer
    # anything dadi prints must not corrupt the frame stream
    sys.stdout = open(os.devnull, 'w')
    write_frame(out, {'ready': True, 'hashseed': os.environ.get('PYTHONHASHSEED'), 'pid': os.getpid()})
    if oneshot:
        job = read_frame(inp)
        frames = []
        run_job_here(job, frames.append)
        write_frame(out, {'frames': frames, 'signal': 0, 'timed_out': False, 'exit': 0})
        return
    gc.freeze()
    serve(inp, out)


if __name__ == '__main__':
    main()
