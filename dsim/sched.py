"""Engine A: discrete-event scheduler over baton-passing real threads.

Every simulated OS process is a real Python thread parked on its own semaphore; exactly one holds
the baton.  Control returns to the scheduler only at *seam operations* (sim.seam(...)).  Which task
runs next, every duration and every fault come from a Chooser: in record mode it draws from one
seeded stream and logs the decision, in replay mode it feeds the logged decisions back.  No real
clock, no real sleep, no real process: one seed is one exactly repeatable execution.
"""
import threading, sys, io, traceback


class SimAbort(BaseException):
    """Raised inside parked tasks when a run is torn down."""


class HarnessError(Exception):
    """The simulator (not dadi) is broken or met something it does not simulate."""


class Deadlock(Exception):
    def __init__(self, report):
        Exception.__init__(self, 'deadlock: ' + '; '.join(report))
        self.report = report


class StepCap(Exception):
    pass


class Chooser:
    """All nondeterminism goes through here.  decisions: list of [label, value] pairs."""

    def __init__(self, stream=None, replay=None):
        self.stream = stream
        self.replay = list(replay) if replay is not None else None
        self.pos = 0
        self.log = []
        self.diverged = 0

    def _next_replay(self, label):
        if self.replay is None:
            return None, False
        if self.pos < len(self.replay):
            lab, val = self.replay[self.pos]
            self.pos += 1
            if lab == label:
                return val, True
            self.diverged += 1
            return None, True  # label mismatch: fall back to default
        return None, True  # exhausted: default policy

    def pick(self, label, options, default_index=0):
        """options: list of hashable ids."""
        val, replaying = self._next_replay(label)
        if replaying:
            if val in options:
                choice = val
            else:
                if val is not None:
                    self.diverged += 1
                choice = options[default_index]
        else:
            choice = options[self.stream.randrange(len(options))]
        self.log.append([label, choice])
        return choice

    def number(self, label, draw, default):
        """draw: callable(stream) -> float."""
        val, replaying = self._next_replay(label)
        if replaying:
            x = default if val is None else val
        else:
            x = draw(self.stream)
        self.log.append([label, x])
        return x

    def flag(self, label, p, default=False):
        val, replaying = self._next_replay(label)
        if replaying:
            x = default if val is None else bool(val)
        else:
            x = self.stream.random() < p
        self.log.append([label, x])
        return x


class Task:
    def __init__(self, sim, tid, name, fn):
        self.sim, self.tid, self.name, self.fn = sim, tid, name, fn
        self.sem = threading.Semaphore(0)
        self.clock = 0.0
        self.cond = None
        self.deadline = None
        self.timed_out = False
        self.blocked_on = 'start'
        self.done = False
        self.started = False
        self.exc = None
        self.result = None
        self.exitcode = None
        self.killed = False
        self.speed = 1.0
        self.thread = threading.Thread(target=self._run, name='sim-%d' % tid, daemon=True)

    def _run(self):
        self.sem.acquire()
        try:
            if self.sim.aborting:
                raise SimAbort()
            self.result = self.fn()
            self.exitcode = 0
        except SimAbort:
            self.exitcode = -9
        except BaseException as e:  # noqa -- a dying simulated process
            self.exc = e
            self.exitcode = 1
            self.sim.trace.append(('task-died', self.tid, type(e).__name__))
        finally:
            self.done = True
            self.blocked_on = None
            self.sim._sched_sem.release()


class Sim:
    def __init__(self, chooser, buggify=0.0, step_cap=100000, op_cost=1e-4, policy='des', pct_depth=2, pct_horizon=400):
        self.ch = chooser
        self.buggify = buggify
        self.step_cap = step_cap
        self.op_cost = op_cost
        self.tasks = []
        self._sched_sem = threading.Semaphore(0)
        self.current = None
        self.now = 0.0
        self.steps = 0
        self.aborting = False
        self.trace = []          # decision/event log (pure data, deterministic)
        self.schedule = []       # task ids in pick order
        self.abandoned = 0
        self.stats = {}
        # policy 'pct': priority-based scheduling with a few random priority-change points (probabilistic concurrency
        # testing): finds orderings that need a specific task to be delayed at a specific step, which time-ordered or
        # uniformly random picking rarely produces
        self.policy = policy
        self.prio = {}
        self.low = 0.0
        self.change_points = set()
        if policy == 'pct':
            for i in range(pct_depth):
                self.change_points.add(int(self.ch.number('pct-change', lambda st: float(st.randrange(max(pct_horizon, 1))), float(10 * (i + 1)))))

    # ---- called from the driver thread -------------------------------------------------------
    def spawn(self, name, fn, start_clock=None):
        t = Task(self, len(self.tasks), name, fn)
        t.clock = self.now if start_clock is None else start_clock
        self.tasks.append(t)
        t.thread.start()
        t.started = True
        return t

    def count(self, key, n=1):
        self.stats[key] = self.stats.get(key, 0) + n

    def run(self):
        """Run until every task is done.  Raises Deadlock / StepCap."""
        while True:
            live = [t for t in self.tasks if not t.done]
            if not live:
                return
            runnable = [t for t in live if t.cond is None or t.cond() or t.deadline is not None]
            if not runnable:
                report = ['%s(#%d) blocked on %s' % (t.name, t.tid, t.blocked_on) for t in live]
                self._abandon(live)
                raise Deadlock(report)
            self.steps += 1
            if self.steps > self.step_cap:
                self._abandon(live)
                raise StepCap('step cap %d exceeded' % self.step_cap)
            # earliest effective time first (ties: chooser); buggify: any runnable
            def eff(t):
                if t.cond is None:
                    return t.clock
                if t.cond():
                    return max(t.clock, self.now)
                return t.deadline          # blocked with a timeout: becomes runnable when simulated time reaches it
            runnable.sort(key=lambda t: (eff(t), t.tid))
            ids = [t.tid for t in runnable]
            if self.policy == 'pct':
                for t in runnable:
                    if t.tid not in self.prio:
                        self.prio[t.tid] = self.ch.number('pct-prio', lambda st: 1.0 + st.random(), 1.0 + 1.0 / (2 + t.tid))
                tid = max(ids, key=lambda i: (self.prio[i], -i))
                if self.steps in self.change_points:
                    self.low -= 1.0
                    self.prio[tid] = self.low
                    self.count('pct_priority_changes')
                    tid = max(ids, key=lambda i: (self.prio[i], -i))
            elif len(ids) > 1 and self.buggify > 0 and self.ch.flag('bug', self.buggify):
                tid = self.ch.pick('any', ids)
                self.count('buggify_picks')
            elif len(ids) > 1:
                k0 = eff(runnable[0])
                tied = [t.tid for t in runnable if eff(t) == k0]
                tid = self.ch.pick('tie', tied) if len(tied) > 1 else ids[0]
            else:
                tid = ids[0]
            t = self.tasks[tid]
            t.timed_out = t.cond is not None and not t.cond()
            t.clock = eff(t)       # a blocked task wakes no earlier than whoever unblocked it
            t.cond = None
            t.deadline = None
            if t.clock > self.now:
                self.now = t.clock
            self.schedule.append(tid)
            self.current = t
            t.sem.release()
            self._sched_sem.acquire()
            self.current = None

    def _abandon(self, live):
        # parked daemon threads are left parked; they hold no locks
        self.aborting = True
        self.abandoned += len(live)

    # ---- called from task threads ----------------------------------------------------------------
    def seam(self, what, cond=None, cost=None, timeout=None):
        """Pre-emption point.  The calling task parks; when it is next picked (and `cond`, if given,
        is true) it returns and performs its operation atomically up to the next seam."""
        t = self.current
        if t is None or threading.current_thread() is not t.thread:
            raise HarnessError('seam(%s) called outside a simulated task' % what)
        t.clock += (self.op_cost if cost is None else cost) / t.speed
        t.cond = cond
        t.deadline = (t.clock + float(timeout)) if (timeout is not None and cond is not None) else None
        t.blocked_on = what
        self._sched_sem.release()
        t.sem.acquire()
        if self.aborting:
            raise SimAbort()
        t.blocked_on = None
        return not t.timed_out

    def advance(self, dt):
        """Pure passage of simulated time for the current task (no pre-emption)."""
        self.current.clock += dt / self.current.speed


class CapturedIO:
    """Redirect stdout/stderr for the duration of a run (workers print tracebacks)."""

    def __enter__(self):
        self.out, self.err = sys.stdout, sys.stderr
        self.buf = io.StringIO()
        sys.stdout = sys.stderr = self.buf
        return self

    def __exit__(self, *a):
        sys.stdout, sys.stderr = self.out, self.err
        return False
