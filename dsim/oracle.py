"""Engine B, parent side: pool of zygote interpreters (one per hash seed in use), job dispatch over
worker threads, fresh-interpreter cross-check."""
import os, sys, subprocess, threading, queue, struct, pickle, time

from .zygote import read_frame, write_frame
from .harness import HarnessFailure, VERIF

PY = sys.executable
ZYG = os.path.join(VERIF, 'dsim', 'zygote.py')


def _env(hashseed):
    e = dict(os.environ)
    e.update(PYTHONHASHSEED=str(hashseed), OPENBLAS_NUM_THREADS='1', OMP_NUM_THREADS='1', MKL_NUM_THREADS='1',
             PYTHONWARNINGS='ignore', PYTHONDONTWRITEBYTECODE='1',
             # glibc heap checking: an out-of-bounds write by a compiled kernel aborts at the next free() instead
             # of silently corrupting the heap, and fresh/freed memory holds a fixed byte pattern (repeatable)
             MALLOC_CHECK_='3', MALLOC_PERTURB_='165')
    return e


class Zygote:
    def __init__(self, repo, hashseed):
        self.hashseed = hashseed
        self.p = subprocess.Popen([PY, ZYG, repo], stdin=subprocess.PIPE, stdout=subprocess.PIPE,
                                  stderr=subprocess.DEVNULL, env=_env(hashseed))
        hello = read_frame(self.p.stdout)
        if not hello or not hello.get('ready'):
            raise HarnessFailure('zygote for hash seed %s failed to start' % hashseed)
        if str(hello.get('hashseed')) != str(hashseed):
            raise HarnessFailure('zygote hash seed mismatch')
        self.lock = threading.Lock()
        self.jobs = 0

    def run(self, job):
        with self.lock:
            write_frame(self.p.stdin, job)
            r = read_frame(self.p.stdout)
            self.jobs += 1
        if r is None:
            raise HarnessFailure('zygote (hash seed %s) died' % self.hashseed)
        return r

    def close(self):
        try:
            write_frame(self.p.stdin, {'kind': 'quit'})
            self.p.stdin.close()
            self.p.wait(timeout=5)
        except Exception:
            self.p.kill()


def fresh_run(repo, job, hashseed):
    """the same job in a truly fresh interpreter (validates the zygote shortcut itself)"""
    p = subprocess.Popen([PY, ZYG, repo, '--oneshot'], stdin=subprocess.PIPE, stdout=subprocess.PIPE,
                         stderr=subprocess.DEVNULL, env=_env(hashseed))
    hello = read_frame(p.stdout)
    if not hello:
        raise HarnessFailure('fresh interpreter failed to start')
    write_frame(p.stdin, job)
    r = read_frame(p.stdout)
    p.stdin.close()
    p.wait(timeout=60)
    if r is None:
        return {'frames': [], 'signal': -(p.returncode or 0), 'timed_out': False, 'exit': p.returncode}
    return r


class Pool:
    """n lanes; lane i owns a reference zygote (hash seed 0) and a session zygote (hash seed seeds[i]).
    work(fn, items): fn(lane, item) executed on lane threads; results in item order."""

    def __init__(self, repo, seeds, ref_seed=0):
        self.repo = repo
        self.lanes = []
        errs = []

        def mk(i, hs):
            try:
                self.lanes[i] = (Zygote(repo, ref_seed), Zygote(repo, hs))
            except Exception as e:
                errs.append(e)
        self.lanes = [None] * len(seeds)
        ts = [threading.Thread(target=mk, args=(i, hs)) for i, hs in enumerate(seeds)]
        [t.start() for t in ts]
        [t.join() for t in ts]
        if errs:
            raise HarnessFailure('zygote start-up failed: %s' % errs[0])
        self.seeds = list(seeds)

    def reseed(self, i, hs):
        ref, ses = self.lanes[i]
        ses.close()
        self.lanes[i] = (ref, Zygote(self.repo, hs))
        self.seeds[i] = hs

    def work(self, fn, items, deadline=None, on_result=None):
        q = queue.Queue()
        for i, it in enumerate(items):
            q.put((i, it))
        results = [None] * len(items)
        errs = []

        def lane_loop(li):
            while True:
                if deadline is not None and time.monotonic() > deadline:
                    return
                try:
                    i, it = q.get_nowait()
                except queue.Empty:
                    return
                try:
                    results[i] = fn(self, li, it)
                    if on_result:
                        on_result(i, results[i])
                except Exception as e:
                    import traceback
                    errs.append(traceback.format_exc())
                    return
        ts = [threading.Thread(target=lane_loop, args=(li,)) for li in range(len(self.lanes))]
        [t.start() for t in ts]
        [t.join() for t in ts]
        if errs:
            raise HarnessFailure('lane failed: %s' % errs[0][-2000:])
        return results

    def close(self):
        for ref, ses in self.lanes:
            ref.close()
            ses.close()
